package experiment

// Bounded stand-in for C20 (labelled bounded, never counted as proved): Execute is run with a scripted
// evaluator and a recording observer for every combination of runs in {1,2,3}, generations in {1,2,3},
// solved-at pattern per trial (never / generation k), fault kind (none / evaluator error at (run,gen) /
// context cancelled before (run,gen)), with and without an observer; the recorded call sequence is
// compared with the protocol stated in the property.

import (
	"context"
	"errors"
	"fmt"
	"strings"
	"testing"

	"github.com/yaricom/goNEAT/v4/neat"
	"github.com/yaricom/goNEAT/v4/neat/genetics"
)

type verifC20Script struct {
	log      []string
	solvedAt []int // per run: generation reported solved, -1 = never
	failRun  int
	failGen  int // evaluator error at (failRun, failGen); -1 none
	cancelAt [2]int
	cancel   context.CancelFunc
	pops     []*genetics.Population
}

func (s *verifC20Script) GenerationEvaluate(ctx context.Context, pop *genetics.Population, epoch *Generation) error {
	s.log = append(s.log, fmt.Sprintf("E%d.%d", epoch.TrialId, epoch.Id))
	if len(s.pops) <= epoch.TrialId {
		s.pops = append(s.pops, pop)
	} else if s.pops[epoch.TrialId] != pop {
		s.log = append(s.log, "WRONGPOP")
	}
	if epoch.TrialId == s.failRun && epoch.Id == s.failGen {
		return errors.New("scripted evaluator failure")
	}
	for _, o := range pop.Organisms {
		o.Fitness = 1.0
	}
	if s.solvedAt[epoch.TrialId] == epoch.Id {
		epoch.Solved = true
		epoch.Champion = pop.Organisms[0]
	}
	epoch.FillPopulationStatistics(pop)
	if s.cancel != nil && s.cancelAt[0] == epoch.TrialId && s.cancelAt[1] == epoch.Id+1 {
		s.cancel() // cancelled after this evaluation: the next generation must not be evaluated
	}
	return nil
}

type verifC20Observer struct{ s *verifC20Script }

func (o verifC20Observer) TrialRunStarted(trial *Trial) {
	o.s.log = append(o.s.log, fmt.Sprintf("S%d", trial.Id))
}
func (o verifC20Observer) TrialRunFinished(trial *Trial) {
	o.s.log = append(o.s.log, fmt.Sprintf("F%d", trial.Id))
}
func (o verifC20Observer) EpochEvaluated(trial *Trial, epoch *Generation) {
	o.s.log = append(o.s.log, fmt.Sprintf("N%d.%d", trial.Id, epoch.Id))
}

// verifC20Expected simulates the protocol of the property statement. turnoverSeesCancel selects whether
// the epoch turnover of a cancelled context returns an error itself (both are allowed by the statement).
func verifC20Expected(runs, gens int, s *verifC20Script, withObs bool, turnoverSeesCancel bool) (want []string, wantErr bool) {
	cancelled := false
	for r := 0; r < runs; r++ {
		if withObs {
			want = append(want, fmt.Sprintf("S%d", r))
		}
		for g := 0; g < gens; g++ {
			if cancelled {
				return want, true
			}
			want = append(want, fmt.Sprintf("E%d.%d", r, g))
			if r == s.failRun && g == s.failGen {
				return want, true
			}
			if s.cancel != nil && s.cancelAt[0] == r && s.cancelAt[1] == g+1 {
				cancelled = true
			}
			solved := s.solvedAt[r] == g
			if !solved && cancelled && turnoverSeesCancel {
				return want, true
			}
			if withObs {
				want = append(want, fmt.Sprintf("N%d.%d", r, g))
			}
			if solved {
				break
			}
		}
		if withObs {
			want = append(want, fmt.Sprintf("F%d", r))
		}
	}
	return want, false
}

func TestVerifOracle_C20(t *testing.T) {
	genome, err := readTestGenome()
	if err != nil {
		t.Fatalf("cannot read test genome: %v", err)
	}
	opts, err := neat.ReadNeatOptionsFromFile(xorConfigPath)
	if err != nil {
		t.Fatalf("cannot read options: %v", err)
	}
	opts.PopSize = 10
	neat.LogLevel = neat.LogLevelError
	cases := 0
	for runs := 1; runs <= 3; runs++ {
		for gens := 1; gens <= 3; gens++ {
			// solved patterns: every run independently in {-1, 0..gens-1}; enumerate as base-(gens+1) number
			nPat := 1
			for i := 0; i < runs; i++ {
				nPat *= gens + 1
			}
			for pat := 0; pat < nPat; pat++ {
				solved := make([]int, runs)
				p := pat
				for i := range solved {
					solved[i] = p%(gens+1) - 1
					p /= gens + 1
				}
				for fault := 0; fault < 1+2*runs*gens; fault++ {
					for _, withObs := range []bool{true, false} {
						s := &verifC20Script{solvedAt: solved, failRun: -1, failGen: -1, cancelAt: [2]int{-1, -1}}
						ctx := neat.NewContext(context.Background(), opts)
						if fault >= 1 {
							k := (fault - 1) / 2
							fr, fg := k/gens, k%gens
							if (fault-1)%2 == 0 {
								s.failRun, s.failGen = fr, fg
							} else {
								if fg == 0 {
									continue // cancellation before the first generation of a run needs a hook before spawn; skipped
								}
								var c context.Context
								c, s.cancel = context.WithCancel(ctx)
								ctx = c
								s.cancelAt = [2]int{fr, fg}
							}
						}
						opts.NumRuns, opts.NumGenerations = runs, gens
						exp := Experiment{Id: 0}
						var obs TrialRunObserver
						if withObs {
							obs = verifC20Observer{s}
						}
						err := exp.Execute(ctx, genome, s, obs)
						want, wantErr := verifC20Expected(runs, gens, s, withObs, false)
						cases++
						got := strings.Join(s.log, " ")
						okSeq := got == strings.Join(want, " ")
						if !okSeq && s.cancel != nil {
							want2, wantErr2 := verifC20Expected(runs, gens, s, withObs, true)
							if got == strings.Join(want2, " ") {
								okSeq, wantErr = true, wantErr2
							}
						}
						if !okSeq {
							t.Fatalf("ORACLE-FAIL C20 runs=%d gens=%d solvedAt=%v failAt=(%d,%d) cancelBefore=%v observer=%v:\n  calls: %s\n  want : %s", runs, gens, solved, s.failRun, s.failGen, s.cancelAt, withObs, got, strings.Join(want, " "))
						}
						if (err != nil) != wantErr {
							t.Fatalf("ORACLE-FAIL C20 runs=%d gens=%d solvedAt=%v failAt=(%d,%d) cancelBefore=%v: error=%v, expected error: %v", runs, gens, solved, s.failRun, s.failGen, s.cancelAt, err, wantErr)
						}
						if err == nil {
							if len(exp.Trials) != runs {
								t.Fatalf("ORACLE-FAIL C20: %d trials recorded, want %d", len(exp.Trials), runs)
							}
							for r, tr := range exp.Trials {
								wantG := gens
								if solved[r] >= 0 {
									wantG = solved[r] + 1
								}
								if tr.Id != r || len(tr.Generations) != wantG {
									t.Fatalf("ORACLE-FAIL C20: trial %d recorded as id=%d with %d generations, want %d", r, tr.Id, len(tr.Generations), wantG)
								}
								for g, gen := range tr.Generations {
									if gen.Id != g || gen.TrialId != r {
										t.Fatalf("ORACLE-FAIL C20: trial %d generation %d recorded as (%d,%d)", r, g, gen.TrialId, gen.Id)
									}
								}
							}
						}
					}
				}
			}
		}
	}
	t.Logf("ORACLE-OK C20 bounded: %d scripted executions", cases)
}
