package genetics

// Confirmation harness for C16 (never establishes the property): run under the Go race detector. Several goroutines
// store innovations, scan the record and draw numbers / node ids concurrently, as the per-species reproduction
// goroutines of the parallel executor do. A data race makes the race detector fail the test.

import (
	"sync"
	"testing"
)

func TestVerifOracle_C16(t *testing.T) {
	p := newPopulation()
	var wg sync.WaitGroup
	for g := 0; g < 8; g++ {
		wg.Add(1)
		go func(g int) {
			defer wg.Done()
			for i := 0; i < 200; i++ {
				num := p.NextInnovationNumber()
				id := p.NextNodeId()
				for _, inn := range p.Innovations() {
					if inn.InnovationNum == num && inn.NewNodeId == id {
						break
					}
				}
				p.StoreInnovation(*NewInnovationForNode(g, i, num, num, id, num))
			}
		}(g)
	}
	wg.Wait()
	if n := len(p.Innovations()); n != 8*200 {
		t.Fatalf("ORACLE-FAIL C16: %d innovations stored, want %d", n, 8*200)
	}
	t.Logf("ORACLE-OK C16: 8 goroutines x 200 store/scan rounds without a race report")
}
