package genetics

// Confirmation harness for C17 (never establishes the property): the same scenario (seeded global random source,
// same start genome, options and deterministic fitness function) is run twice in one process -- the second time after
// unrelated work that allocates memory, iterates maps and draws from a *separate* random source -- and the serialised
// populations after every epoch are compared byte for byte.

import (
	"bytes"
	"fmt"
	"math/rand"
	"os"
	"strconv"
	"testing"

	"github.com/yaricom/goNEAT/v4/neat"
	"github.com/yaricom/goNEAT/v4/neat/math"
)

func verifC17Run(seed int64, epochs int) ([]string, error) {
	rand.Seed(seed)
	conf := &neat.Options{
		CompatThreshold: 3.0, DropOffAge: 5, PopSize: 24, BabiesStolen: 5, RecurOnlyProb: 0.2, AgeSignificance: 1.0, SurvivalThresh: 0.4,
		MutateAddNodeProb: 0.3, MutateAddLinkProb: 0.4, MutateLinkWeightsProb: 0.8, MutateToggleEnableProb: 0.1, MutateGeneReenableProb: 0.05,
		MutateRandomTraitProb: 0.1, MutateLinkTraitProb: 0.1, MutateNodeTraitProb: 0.1, MutateConnectSensors: 0.1,
		MateMultipointProb: 0.4, MateMultipointAvgProb: 0.3, MateSinglepointProb: 0.3, MateOnlyProb: 0.2, MutateOnlyProb: 0.25,
		InterspeciesMateRate: 0.05, WeightMutPower: 1.5, TraitMutationPower: 1.0, TraitParamMutProb: 0.5, NewLinkTries: 10,
		DisjointCoeff: 1.0, ExcessCoeff: 1.0, MutdiffCoeff: 0.4,
		NodeActivators: []math.NodeActivationType{math.SigmoidSteepenedActivation, math.TanhActivation}, NodeActivatorsProb: []float64{0.5, 0.5},
		GenCompatMethod: neat.GenomeCompatibilityMethodFast, EpochExecutorType: neat.EpochExecutorTypeSequential,
	}
	gen, err := newGenomeRand(1, 3, 2, 2, 5, false, 0.7, conf)
	if err != nil {
		return nil, err
	}
	pop, err := NewPopulation(gen, conf)
	if err != nil {
		return nil, err
	}
	var snaps []string
	ex := &SequentialPopulationEpochExecutor{}
	for e := 0; e < epochs; e++ {
		for _, o := range pop.Organisms {
			// deterministic fitness: a function of the genome only
			f := 1.0 + float64(len(o.Genotype.Genes)%5)
			for _, g := range o.Genotype.Genes {
				f += 0.01 * g.Link.ConnectionWeight * g.Link.ConnectionWeight
			}
			o.Fitness = f
		}
		if err := ex.NextEpoch(conf.NeatContext(), e, pop); err != nil {
			return snaps, fmt.Errorf("epoch %d: %v", e, err)
		}
		var buf bytes.Buffer
		if err := pop.Write(&buf); err != nil {
			return snaps, err
		}
		snaps = append(snaps, buf.String())
	}
	return snaps, nil
}

func TestVerifOracle_C17(t *testing.T) {
	neat.LogLevel = neat.LogLevelError
	seed, _ := strconv.ParseInt(os.Getenv("VERIF_SEED"), 10, 64)
	scenarios, epochs := 3, 6
	if os.Getenv("VERIF_TIER") == "thorough" {
		scenarios, epochs = 12, 10
	}
	compared := 0
	for sc := 0; sc < scenarios; sc++ {
		s := seed*1000 + int64(sc) + 17
		a, errA := verifC17Run(s, epochs)
		// unrelated work in between: allocations, map iteration, a separate random source
		junk := map[int][]byte{}
		other := rand.New(rand.NewSource(s + 99))
		for i := 0; i < 5000; i++ {
			junk[other.Intn(1000)] = make([]byte, other.Intn(512))
		}
		for k := range junk {
			_ = k
		}
		b, errB := verifC17Run(s, epochs)
		if (errA == nil) != (errB == nil) || (errA != nil && errA.Error() != errB.Error()) {
			t.Fatalf("ORACLE-FAIL C17 seed %d: runs end differently: %v vs %v", s, errA, errB)
		}
		for e := range a {
			if e >= len(b) || a[e] != b[e] {
				t.Fatalf("ORACLE-FAIL C17 seed %d: populations differ after epoch %d although seed, start genome, options and fitness function are identical", s, e)
			}
			compared++
		}
	}
	t.Logf("ORACLE-OK C17: %d scenarios run twice, %d population snapshots identical", scenarios, compared)
}
