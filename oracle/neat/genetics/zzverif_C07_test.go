package genetics

// Bounded stand-in for C07 (labelled bounded, never counted as proved): exhaustive over all pairs of strictly
// ascending innovation lists drawn from {1..6} (0..6 genes each) with seeded mutation numbers: both methods are
// compared with a set-based reference (E = genes above the other list's maximum, M = common numbers, D = the rest,
// W = mean |mutation difference| over M, 0 when M is empty), with each other, for symmetry, self-distance 0, NaN and sign.

import (
	"math"
	"math/rand"
	"os"
	"strconv"
	"testing"

	"github.com/yaricom/goNEAT/v4/neat"
	"github.com/yaricom/goNEAT/v4/neat/network"
)

func verifC07Genome(innovs []int64, muts []float64) *Genome {
	in := network.NewSensorNode(1, false)
	out := network.NewNNode(2, network.OutputNeuron)
	g := &Genome{Id: 1, Nodes: []*network.NNode{in, out}}
	for i, n := range innovs {
		g.Genes = append(g.Genes, NewConnectionGene(network.NewLink(1.0, in, out, false), n, muts[i], true))
	}
	return g
}

func verifC07Reference(a, b []int64, ma, mb []float64, dc, ec, mc float64) float64 {
	maxOf := func(x []int64) int64 {
		m := int64(math.MinInt64)
		for _, v := range x {
			if v > m {
				m = v
			}
		}
		return m
	}
	idx := func(x []int64, v int64) int {
		for i, w := range x {
			if w == v {
				return i
			}
		}
		return -1
	}
	e, d, m, w := 0, 0, 0, 0.0
	maxA, maxB := maxOf(a), maxOf(b)
	for i, v := range a {
		if j := idx(b, v); j >= 0 {
			m++
			w += math.Abs(ma[i] - mb[j])
		} else if v > maxB {
			e++
		} else {
			d++
		}
	}
	for _, v := range b {
		if idx(a, v) >= 0 {
			continue
		}
		if v > maxA {
			e++
		} else {
			d++
		}
	}
	r := dc*float64(d) + ec*float64(e)
	if m > 0 {
		r += mc * w / float64(m)
	}
	return r
}

func TestVerifOracle_C07(t *testing.T) {
	seed, _ := strconv.ParseInt(os.Getenv("VERIF_SEED"), 10, 64)
	rnd := rand.New(rand.NewSource(seed + 707))
	var lists [][]int64
	for mask := 0; mask < 64; mask++ {
		var l []int64
		for b := 0; b < 6; b++ {
			if mask&(1<<uint(b)) != 0 {
				l = append(l, int64(b+1))
			}
		}
		lists = append(lists, l)
	}
	close := func(x, y float64) bool { return math.Abs(x-y) <= 1e-9*math.Max(1, math.Max(math.Abs(x), math.Abs(y))) }
	n := 0
	for _, a := range lists {
		for _, b := range lists {
			ma, mb := make([]float64, len(a)), make([]float64, len(b))
			for i := range ma {
				ma[i] = rnd.Float64()*4 - 2
			}
			for i := range mb {
				mb[i] = rnd.Float64()*4 - 2
			}
			dc, ec, mc := rnd.Float64()*2, rnd.Float64()*2, rnd.Float64()*2
			ga, gb := verifC07Genome(a, ma), verifC07Genome(b, mb)
			want := verifC07Reference(a, b, ma, mb, dc, ec, mc)
			for _, method := range []neat.GenomeCompatibilityMethod{neat.GenomeCompatibilityMethodLinear, neat.GenomeCompatibilityMethodFast} {
				opts := &neat.Options{DisjointCoeff: dc, ExcessCoeff: ec, MutdiffCoeff: mc, GenCompatMethod: method}
				got := ga.compatibility(gb, opts)
				rev := gb.compatibility(ga, opts)
				self := ga.compatibility(ga, opts)
				n++
				switch {
				case math.IsNaN(got):
					t.Fatalf("ORACLE-FAIL C07 method=%s a=%v b=%v: NaN", method, a, b)
				case !close(got, want):
					t.Fatalf("ORACLE-FAIL C07 method=%s a=%v b=%v coeffs=(%.3f,%.3f,%.3f): got %v, NEAT formula gives %v", method, a, b, dc, ec, mc, got, want)
				case !close(got, rev):
					t.Fatalf("ORACLE-FAIL C07 method=%s a=%v b=%v: not symmetric: %v vs %v", method, a, b, got, rev)
				case self != 0 && len(a) > 0 || math.IsNaN(self):
					t.Fatalf("ORACLE-FAIL C07 method=%s a=%v: distance to itself is %v", method, a, self)
				case got < 0:
					t.Fatalf("ORACLE-FAIL C07 method=%s a=%v b=%v: negative distance %v", method, a, b, got)
				}
			}
		}
	}
	t.Logf("ORACLE-OK C07 bounded: %d distance evaluations", n)
}
