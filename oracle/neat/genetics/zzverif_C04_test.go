package genetics

// Bounded stand-in for C04 (labelled bounded, never counted as proved): all pairs of parents whose gene lists are
// strictly ascending subsets of the innovation numbers {1..5} that share at least one number (common ancestry: a number
// always denotes the same link), every fitness ordering, several seeds, all three crossovers. Checked on the real code:
// the call succeeds, the child has at least one gene, its innovation numbers are strictly ascending, every child gene
// carries the number, endpoints and recurrence flag of a parent gene, and in the multipoint methods every gene present in
// both parents is inherited. It supplies concrete failing inputs when a contract obligation of C04 fails.

import (
	"math/rand"
	"os"
	"strconv"
	"testing"

	"github.com/yaricom/goNEAT/v4/neat"
	"github.com/yaricom/goNEAT/v4/neat/network"
)

// link k joins sensor (k%2)+1 to node 3+k/2... kept simple: every innovation number has its own target node.
func verifC04Genome(id int, innovs []int64, rnd *rand.Rand) *Genome {
	tr := neat.NewTrait()
	tr.Id = 1
	tr.Params = []float64{0.1, 0.2, 0.3, 0.4, 0.5, 0.6, 0.7, 0.8}
	nodes := []*network.NNode{network.NewNNode(1, network.InputNeuron), network.NewNNode(2, network.BiasNeuron), network.NewNNode(3, network.OutputNeuron)}
	for k := int64(1); k <= 5; k++ {
		nodes = append(nodes, network.NewNNode(int(3+k), network.HiddenNeuron))
	}
	var genes []*Gene
	for _, n := range innovs {
		in := nodes[int(n)%2]
		out := nodes[2+int(n)]
		g := NewConnectionGene(network.NewLink(float64(n)+rnd.Float64(), in, out, false), n, float64(n), rnd.Intn(4) != 0)
		genes = append(genes, g)
	}
	return NewGenome(id, []*neat.Trait{tr}, nodes, genes)
}

func TestVerifOracle_C04(t *testing.T) {
	seed, _ := strconv.ParseInt(os.Getenv("VERIF_SEED"), 10, 64)
	neat.LogLevel = neat.LogLevelError
	var lists [][]int64
	for m := 1; m < 32; m++ {
		var l []int64
		for k := 0; k < 5; k++ {
			if m&(1<<k) != 0 {
				l = append(l, int64(k+1))
			}
		}
		lists = append(lists, l)
	}
	has := func(l []int64, v int64) bool {
		for _, w := range l {
			if w == v {
				return true
			}
		}
		return false
	}
	n := 0
	for _, a := range lists {
		for _, b := range lists {
			shared := false
			for _, v := range a {
				if has(b, v) {
					shared = true
				}
			}
			if !shared {
				continue
			}
			for s := int64(0); s < 3; s++ {
				for _, fit := range [][2]float64{{2, 1}, {1, 2}, {1, 1}} {
					for method := 0; method < 3; method++ {
						rnd := rand.New(rand.NewSource(seed*1000 + s))
						rand.Seed(seed*7919 + s*31 + int64(method))
						g1, g2 := verifC04Genome(1, a, rnd), verifC04Genome(2, b, rnd)
						var child *Genome
						var err error
						name := ""
						switch method {
						case 0:
							name = "mateMultipoint"
							child, err = g1.mateMultipoint(g2, 3, fit[0], fit[1])
						case 1:
							name = "mateMultipointAvg"
							child, err = g1.mateMultipointAvg(g2, 3, fit[0], fit[1])
						default:
							name = "mateSinglePoint"
							child, err = g1.mateSinglePoint(g2, 3)
						}
						n++
						if err != nil || child == nil {
							t.Fatalf("ORACLE-FAIL C04 %s parents=%v x %v fitness=%v seed=%d: error %v", name, a, b, fit, s, err)
						}
						if len(child.Genes) == 0 {
							t.Fatalf("ORACLE-FAIL C04 %s parents=%v x %v fitness=%v seed=%d: the child has no genes although the parents share a gene", name, a, b, fit, s)
						}
						for i, cg := range child.Genes {
							if i > 0 && child.Genes[i-1].InnovationNum >= cg.InnovationNum {
								t.Fatalf("ORACLE-FAIL C04 %s parents=%v x %v fitness=%v seed=%d: child innovation numbers not strictly ascending at %d", name, a, b, fit, s, i)
							}
							if !has(a, cg.InnovationNum) && !has(b, cg.InnovationNum) {
								t.Fatalf("ORACLE-FAIL C04 %s parents=%v x %v: child gene %d is in neither parent", name, a, b, cg.InnovationNum)
							}
							wantIn, wantOut := int(cg.InnovationNum)%2+1, 3+int(cg.InnovationNum)
							if cg.Link.InNode.Id != wantIn || cg.Link.OutNode.Id != wantOut || cg.Link.IsRecurrent {
								t.Fatalf("ORACLE-FAIL C04 %s parents=%v x %v: child gene %d joins %d->%d, its number denotes %d->%d", name, a, b, cg.InnovationNum, cg.Link.InNode.Id, cg.Link.OutNode.Id, wantIn, wantOut)
							}
						}
						if method < 2 {
							for _, v := range a {
								if !has(b, v) {
									continue
								}
								found := false
								for _, cg := range child.Genes {
									if cg.InnovationNum == v {
										found = true
									}
								}
								if !found {
									t.Fatalf("ORACLE-FAIL C04 %s parents=%v x %v fitness=%v seed=%d: gene %d is in both parents but not in the child", name, a, b, fit, s, v)
								}
							}
						}
					}
				}
			}
		}
	}
	t.Logf("ORACLE-OK C04 bounded: %d crossovers", n)
}
