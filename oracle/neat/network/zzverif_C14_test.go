package network

// Bounded stand-in for C14 (labelled bounded, never counted as proved): exhaustive over all
// digraphs on one sensor plus k <= 3 non-sensor nodes (k <= 4 in the thorough tier, sampled),
// self-loops and cycles included, caps 0..k+2. Checks against an independent reference:
//   - no traversal mark is left behind (also after a capped query);
//   - acyclic: depth == number of links on the longest path ending in the output;
//   - cyclic: terminates with 0 <= depth <= number of nodes;
//   - cap > 0: result == uncapped result when that is <= cap, otherwise cap + ErrMaximalNetDepthExceeded;
//   - a second query gives the same answer.

import (
	"fmt"
	"math/rand"
	"os"
	"strconv"
	"testing"
)

type verifC14Graph struct {
	k     int
	edges [][2]int // from, to ; node 0 = sensor, 1..k non-sensor, k = output
}

func (g verifC14Graph) build() (*Network, []*NNode) {
	nodes := make([]*NNode, g.k+1)
	nodes[0] = NewSensorNode(1, false)
	for i := 1; i <= g.k; i++ {
		t := HiddenNeuron
		if i == g.k {
			t = OutputNeuron
		}
		nodes[i] = NewNNode(i+1, t)
	}
	for _, e := range g.edges {
		nodes[e[1]].ConnectFrom(nodes[e[0]], 1.0)
	}
	return NewNetwork(nodes[:1], nodes[g.k:], nodes, 0), nodes
}

// reference longest path (in links) ending in `to`, walking edges backwards; ok=false when a cycle is reachable
func (g verifC14Graph) longest(to int, onPath map[int]bool, memo map[int]int) (int, bool) {
	if to == 0 {
		return 0, true
	}
	if onPath[to] {
		return 0, false
	}
	if v, ok := memo[to]; ok {
		return v, true
	}
	onPath[to] = true
	best := 0
	for _, e := range g.edges {
		if e[1] != to {
			continue
		}
		d, ok := g.longest(e[0], onPath, memo)
		if !ok {
			onPath[to] = false
			return 0, false
		}
		if d+1 > best {
			best = d + 1
		}
	}
	onPath[to] = false
	memo[to] = best
	return best, true
}

func verifC14Check(g verifC14Graph) error {
	ref, acyclic := g.longest(g.k, map[int]bool{}, map[int]int{})
	net, nodes := g.build()
	marks := func(when string) error {
		for _, n := range nodes {
			if n.visited {
				return fmt.Errorf("traversal mark left on node %d %s", n.Id, when)
			}
		}
		return nil
	}
	out := nodes[g.k]
	d0, err := out.Depth(0, 0)
	if err != nil {
		return fmt.Errorf("uncapped Depth returned error %v", err)
	}
	if e := marks("after an uncapped Depth query"); e != nil {
		return e
	}
	if acyclic && d0 != ref {
		return fmt.Errorf("acyclic graph: Depth=%d, longest path=%d", d0, ref)
	}
	if d0 < 0 || d0 > len(nodes) {
		return fmt.Errorf("depth %d outside [0,%d]", d0, len(nodes))
	}
	for cap := 1; cap <= g.k+2; cap++ {
		dc, err := out.Depth(0, cap)
		if e := marks(fmt.Sprintf("after Depth(0, cap=%d) err=%v", cap, err)); e != nil {
			return e
		}
		if d0 <= cap {
			if err != nil || dc != d0 {
				return fmt.Errorf("cap %d >= depth %d but got (%d, %v)", cap, d0, dc, err)
			}
		} else if err != ErrMaximalNetDepthExceeded || dc != cap {
			return fmt.Errorf("cap %d < depth %d but got (%d, %v)", cap, d0, dc, err)
		}
		d1, err1 := out.Depth(0, 0)
		if err1 != nil || d1 != d0 {
			return fmt.Errorf("query after a capped query (cap=%d) gives (%d,%v), fresh network gives %d", cap, d1, err1, d0)
		}
	}
	// network level (needs a hidden node for the non-shortcut path)
	if g.k >= 2 {
		m0, err := net.MaxActivationDepthWithCap(0)
		if err != nil || m0 != d0 {
			return fmt.Errorf("MaxActivationDepthWithCap(0) = (%d,%v), Depth = %d", m0, err, d0)
		}
		if e := marks("after MaxActivationDepthWithCap"); e != nil {
			return e
		}
	}
	return nil
}

func verifC14All(k int, visit func(g verifC14Graph) bool) {
	var cand [][2]int
	for u := 0; u <= k; u++ {
		for v := 1; v <= k; v++ {
			cand = append(cand, [2]int{u, v})
		}
	}
	for mask := 0; mask < 1<<uint(len(cand)); mask++ {
		g := verifC14Graph{k: k}
		for i, e := range cand {
			if mask&(1<<uint(i)) != 0 {
				g.edges = append(g.edges, e)
			}
		}
		if !visit(g) {
			return
		}
	}
}

func TestVerifOracle_C14(t *testing.T) {
	seed, _ := strconv.ParseInt(os.Getenv("VERIF_SEED"), 10, 64)
	thorough := os.Getenv("VERIF_TIER") == "thorough"
	n := 0
	for k := 1; k <= 3; k++ {
		verifC14All(k, func(g verifC14Graph) bool {
			n++
			if err := verifC14Check(g); err != nil {
				t.Fatalf("ORACLE-FAIL C14 k=%d edges=%v: %v", g.k, g.edges, err)
				return false
			}
			return true
		})
	}
	if thorough {
		rnd := rand.New(rand.NewSource(seed))
		for i := 0; i < 200000; i++ {
			g := verifC14Graph{k: 4}
			for u := 0; u <= 4; u++ {
				for v := 1; v <= 4; v++ {
					if rnd.Intn(3) == 0 {
						g.edges = append(g.edges, [2]int{u, v})
					}
				}
			}
			n++
			if err := verifC14Check(g); err != nil {
				t.Fatalf("ORACLE-FAIL C14 k=%d edges=%v: %v", g.k, g.edges, err)
			}
		}
	}
	t.Logf("ORACLE-OK C14 bounded: %d graphs", n)
}
