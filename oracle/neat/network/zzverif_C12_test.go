package network

// Bounded stand-in for C12 (labelled bounded, never counted as proved): for seeded random feed-forward networks
// (1 bias, 1..2 inputs, 0..3 hidden, 1..2 outputs; every neuron reachable from a sensor; skip connections; weights on
// bias links that matter; non-saturating weights; several activation types) the standard solver, the fast solver's
// forward stepping, its recursive activation and its relaxation are compared with a reference that evaluates each
// neuron once in topological order as activation(sum of weight*source), bias inputs being one.

import (
	"math"
	"math/rand"
	"os"
	"strconv"
	"testing"

	neatmath "github.com/yaricom/goNEAT/v4/neat/math"
)

type verifC12Net struct {
	nIn, nHid, nOut int
	edges           [][3]float64 // from, to, weight; node indices: 0 bias, 1..nIn inputs, hidden, outputs (topological order)
	acts            []neatmath.NodeActivationType
}

func (g verifC12Net) total() int { return 1 + g.nIn + g.nHid + g.nOut }

func (g verifC12Net) build() *Network {
	total := g.total()
	nodes := make([]*NNode, total)
	nodes[0] = NewSensorNode(1, true)
	for i := 1; i <= g.nIn; i++ {
		nodes[i] = NewSensorNode(i+1, false)
	}
	for i := 1 + g.nIn; i < total; i++ {
		t := HiddenNeuron
		if i >= 1+g.nIn+g.nHid {
			t = OutputNeuron
		}
		nodes[i] = NewNNode(i+1, t)
		nodes[i].ActivationType = g.acts[i]
	}
	for _, e := range g.edges {
		nodes[int(e[1])].ConnectFrom(nodes[int(e[0])], e[2])
	}
	return NewNetwork(nodes[:1+g.nIn], nodes[1+g.nIn+g.nHid:], nodes, 0)
}

func (g verifC12Net) reference(in []float64) ([]float64, int) {
	total := g.total()
	val := make([]float64, total)
	depth := make([]int, total)
	val[0] = 1.0
	copy(val[1:], in)
	maxDepth := 0
	for v := 1 + g.nIn; v < total; v++ {
		sum := 0.0
		for _, e := range g.edges {
			if int(e[1]) == v {
				sum += e[2] * val[int(e[0])]
				if depth[int(e[0])]+1 > depth[v] {
					depth[v] = depth[int(e[0])] + 1
				}
			}
		}
		val[v], _ = neatmath.NodeActivators.ActivateByType(sum, nil, g.acts[v])
		if depth[v] > maxDepth {
			maxDepth = depth[v]
		}
	}
	return val[1+g.nIn+g.nHid:], maxDepth
}

func TestVerifOracle_C12(t *testing.T) {
	seed, _ := strconv.ParseInt(os.Getenv("VERIF_SEED"), 10, 64)
	rnd := rand.New(rand.NewSource(seed + 1212))
	n := 400
	if os.Getenv("VERIF_TIER") == "thorough" {
		n = 6000
	}
	types := []neatmath.NodeActivationType{neatmath.SigmoidSteepenedActivation, neatmath.SigmoidPlainActivation, neatmath.TanhActivation,
		neatmath.LinearActivation, neatmath.GaussianActivation, neatmath.SigmoidBipolarActivation, neatmath.LinearClippedActivation}
	close := func(a, b float64) bool { return math.Abs(a-b) <= 1e-9*math.Max(1, math.Max(math.Abs(a), math.Abs(b))) }
	cases := 0
	for c := 0; c < n; c++ {
		g := verifC12Net{nIn: 1 + rnd.Intn(2), nHid: rnd.Intn(4), nOut: 1 + rnd.Intn(2)}
		total := g.total()
		g.acts = make([]neatmath.NodeActivationType, total)
		for i := range g.acts {
			g.acts[i] = types[rnd.Intn(len(types))]
		}
		first := 1 + g.nIn
		for v := first; v < total; v++ {
			// every neuron gets at least one input from an earlier node (so it is reachable from a sensor)
			limit := v
			if v >= first+g.nHid {
				limit = first + g.nHid // an output takes its guaranteed input from a sensor or hidden node
			}
			must := rnd.Intn(limit)
			if must == 0 { // avoid a neuron fed by the bias only: use a real input too
				must = 1 + rnd.Intn(g.nIn)
			}
			for u := 0; u < v; u++ {
				if v >= first+g.nHid && u >= first+g.nHid {
					continue // no output -> output links
				}
				if u == must || rnd.Intn(3) == 0 {
					g.edges = append(g.edges, [3]float64{float64(u), float64(v), rnd.Float64()*2 - 1})
				}
			}
		}
		in := make([]float64, g.nIn)
		for i := range in {
			in[i] = rnd.Float64()*2 - 1
		}
		want, depth := g.reference(in)
		if depth == 0 {
			continue
		}
		check := func(path string, got []float64) {
			cases++
			for i := range want {
				if i >= len(got) || !close(got[i], want[i]) {
					t.Fatalf("ORACLE-FAIL C12 %s: net=%+v inputs=%v: outputs %v, topological evaluation gives %v", path, g, in, got, want)
				}
			}
		}
		// standard solver
		std := g.build()
		if err := std.LoadSensors(append(append([]float64{}, in...))); err != nil {
			t.Fatal(err)
		}
		if _, err := std.ForwardSteps(depth); err != nil {
			t.Fatalf("ORACLE-FAIL C12 standard solver error %v on net=%+v", err, g)
		}
		check("standard ForwardSteps", std.ReadOutputs())
		// fast solver: forward stepping, recursive, relaxation
		for _, path := range []string{"fast ForwardSteps", "fast RecursiveSteps", "fast Relax"} {
			s, err := g.build().FastNetworkSolver()
			if err != nil {
				t.Fatal(err)
			}
			if err := s.LoadSensors(in); err != nil {
				t.Fatal(err)
			}
			switch path {
			case "fast ForwardSteps":
				_, err = s.ForwardSteps(depth)
			case "fast RecursiveSteps":
				_, err = s.RecursiveSteps()
			case "fast Relax":
				_, err = s.Relax(depth+2, 1e-12)
			}
			if err != nil {
				t.Fatalf("ORACLE-FAIL C12 %s error %v on net=%+v", path, err, g)
			}
			check(path, s.ReadOutputs())
		}
	}
	t.Logf("ORACLE-OK C12 bounded: %d networks, %d solver runs compared with the topological evaluation", n, cases)
}
