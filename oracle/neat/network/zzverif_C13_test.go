package network

// Bounded stand-in for C13 (labelled bounded, never counted as proved): for seeded random networks
// (feed-forward, recurrent, self-loops; 1 bias + 1..2 inputs, 0..3 hidden, 1..2 outputs), a random prior
// history of operations, then Flush, then a random sequence of operations: outputs are compared step by
// step with the same sequence on a freshly built instance, for the standard solver and the fast solver.

import (
	"fmt"
	"math/rand"
	"os"
	"strconv"
	"testing"
)

type verifC13Net struct {
	nIn, nHid, nOut int
	edges           [][3]float64 // from, to, weight (node indices: 0 bias, 1..nIn inputs, then hidden, then outputs)
}

func (g verifC13Net) build() *Network {
	total := 1 + g.nIn + g.nHid + g.nOut
	nodes := make([]*NNode, total)
	nodes[0] = NewSensorNode(1, true)
	for i := 1; i <= g.nIn; i++ {
		nodes[i] = NewSensorNode(i+1, false)
	}
	for i := 1 + g.nIn; i < total; i++ {
		t := HiddenNeuron
		if i >= 1+g.nIn+g.nHid {
			t = OutputNeuron
		}
		nodes[i] = NewNNode(i+1, t)
	}
	for _, e := range g.edges {
		nodes[int(e[1])].ConnectFrom(nodes[int(e[0])], e[2])
	}
	return NewNetwork(nodes[:1+g.nIn], nodes[1+g.nIn+g.nHid:], nodes, 0)
}

type verifC13Op struct {
	kind   int // 0 load, 1 forward(k), 2 recursive, 3 relax
	inputs []float64
	k      int
}

func verifC13Ops(rnd *rand.Rand, nIn, n int) []verifC13Op {
	ops := []verifC13Op{}
	for i := 0; i < n; i++ {
		op := verifC13Op{kind: rnd.Intn(4), k: 1 + rnd.Intn(3)}
		if op.kind == 0 || i == 0 {
			op.kind = 0
			for j := 0; j < nIn; j++ {
				op.inputs = append(op.inputs, rnd.Float64()*2-1)
			}
		}
		ops = append(ops, op)
	}
	return ops
}

func verifC13Apply(s Solver, op verifC13Op, fast bool) string {
	switch op.kind {
	case 0:
		in := op.inputs
		if !fast {
			in = append([]float64{1.0}, op.inputs...) // the standard solver loads the bias as a sensor value
		}
		if err := s.LoadSensors(in); err != nil {
			return "loaderr:" + err.Error()
		}
	case 1:
		if _, err := s.ForwardSteps(op.k); err != nil {
			return "err"
		}
	case 2:
		if _, err := s.RecursiveSteps(); err != nil {
			return "err"
		}
	case 3:
		if _, err := s.Relax(op.k, 0.0001); err != nil {
			return "err"
		}
	}
	return fmt.Sprintf("%v", s.ReadOutputs())
}

func TestVerifOracle_C13(t *testing.T) {
	seed, _ := strconv.ParseInt(os.Getenv("VERIF_SEED"), 10, 64)
	rnd := rand.New(rand.NewSource(seed + 1313))
	n := 300
	if os.Getenv("VERIF_TIER") == "thorough" {
		n = 5000
	}
	checked := 0
	for c := 0; c < n; c++ {
		g := verifC13Net{nIn: 1 + rnd.Intn(2), nHid: rnd.Intn(4), nOut: 1 + rnd.Intn(2)}
		total := 1 + g.nIn + g.nHid + g.nOut
		recurrent := rnd.Intn(2) == 0
		for u := 0; u < total; u++ {
			for v := 1 + g.nIn; v < total; v++ {
				if !recurrent && u >= v {
					continue
				}
				if rnd.Intn(3) == 0 {
					g.edges = append(g.edges, [3]float64{float64(u), float64(v), rnd.Float64()*4 - 2})
				}
			}
		}
		history := verifC13Ops(rnd, g.nIn, 1+rnd.Intn(5))
		after := verifC13Ops(rnd, g.nIn, 2+rnd.Intn(5))
		for _, fast := range []bool{false, true} {
			mk := func() Solver {
				net := g.build()
				if !fast {
					return net
				}
				s, err := net.FastNetworkSolver()
				if err != nil {
					t.Fatalf("cannot build fast solver: %v", err)
				}
				return s
			}
			used, fresh := mk(), mk()
			for _, op := range history {
				if fast || (op.kind != 2 && op.kind != 3) { // the standard solver implements neither recursion nor relaxation
					verifC13Apply(used, op, fast)
				}
			}
			if ok, err := used.Flush(); !ok || err != nil {
				t.Fatalf("ORACLE-FAIL C13 Flush returned (%v,%v)", ok, err)
			}
			for i, op := range after {
				if !fast && (op.kind == 2 || op.kind == 3) {
					continue
				}
				a, b := verifC13Apply(used, op, fast), verifC13Apply(fresh, op, fast)
				checked++
				if a != b {
					t.Fatalf("ORACLE-FAIL C13 fast=%v net=%+v history=%+v: after Flush, step %d (%+v) gives %s, a fresh instance gives %s", fast, g, history, i, op, a, b)
				}
			}
		}
	}
	t.Logf("ORACLE-OK C13 bounded: %d networks, %d compared steps", n, checked)
}
