package main

import (
	"fmt"
	"go/token"
	"go/types"
	"sort"
	"strings"

	"golang.org/x/tools/go/ssa"
)

// State maps state-variable names to their current SMT term. A missing entry
// means "still the initial symbolic value".
type State struct{ m map[string]*Term }

func newState() *State { return &State{m: map[string]*Term{}} }
func (s *State) clone() *State {
	n := &State{m: make(map[string]*Term, len(s.m)+8)}
	for k, v := range s.m {
		n.m[k] = v
	}
	return n
}

type Obl struct {
	Name   string
	Kind   string // pre post inv.est inv.pres call.pre safe.* frame fdef
	Label  string
	Goal   *Term
	CtxLen int
	Func   string
	Line   int
	Props  []string
	Src    string
	Callee string
	// results
	Status string // unsat sat unknown timeout error
	Solver string
	TimeS  float64
	Model  string
	File   string
	part   bool            // a conjunct of a split goal (never split again)
	Block  *ssa.BasicBlock // top-level block the obligation belongs to
	Cut    *cutRec         // the last cut this obligation lies behind
	Drops  [][2]int        // ranges of context commands whose assertions are forgotten (contract `cut` statements)
}

// cutRec: a `cut` executed in block; obligations generated afterwards in that block or in blocks it dominates
// keep the declarations of cmds[from:to] but none of the assertions.
type cutRec struct {
	block    *ssa.BasicBlock
	from, to int
	loop     bool            // the facts are the invariants assumed at a loop head (contract `focus`): requires stay visible
	soft     bool            // nothing forgotten: only the focused context is tried first
	facts    map[int]string  // context command -> label of the cut fact it states
	keep     map[string]bool // labels visible to every obligation in its focused context
}

type blockMark struct {
	idx   int
	block *ssa.BasicBlock
}

// blockOf: the top-level block during whose execution context command i was emitted (nil: before the body).
func (vc *VC) blockOf(i int) *ssa.BasicBlock {
	lo, hi := 0, len(vc.blockMarks)
	for lo < hi {
		m := (lo + hi) / 2
		if vc.blockMarks[m].idx <= i {
			lo = m + 1
		} else {
			hi = m
		}
	}
	if lo == 0 {
		return nil
	}
	return vc.blockMarks[lo-1].block
}

// hidden: command i does not belong to the context of obligation o: it is forgotten by a cut, or it was emitted for
// a block from which the obligation's block cannot be reached (its guard is false on every path to the obligation).
func (vc *VC) hidden(o *Obl, i int, cmd string) bool {
	if o.dropped(i, cmd) {
		return true
	}
	if o.Block != nil && vc.cfReach != nil && strings.HasPrefix(cmd, "(assert") {
		if x := vc.blockOf(i); x != nil && x != o.Block && !vc.cfReach[x.Index][o.Block.Index] {
			return true
		}
	}
	return false
}

// dropped reports whether context command i is forgotten for obligation o.
func (o *Obl) dropped(i int, cmd string) bool {
	for _, d := range o.Drops {
		if i >= d[0] && i < d[1] {
			return strings.HasPrefix(cmd, "(assert")
		}
	}
	return false
}

type VC struct {
	e     *Engine
	fn    *ssa.Function
	fc    *FuncContract
	short string

	cmds  []string
	sorts map[string]string
	nfr   int
	Obls  []*Obl

	Unsupported    []string
	Errors         []string // contract does not apply (UNDECIDED)
	exits          []*Term  // reach terms of normal returns
	loopGuards     []*Term
	loopGuardNames []string
	oblNames       map[string]int
	frames         int
	axiomsDone     bool
	usedTrusted    map[string]bool
	inlined        map[string]bool
	callCount      map[string]int
	blockMarks     []blockMark          // where the context commands of each top-level block start
	cfReach        map[int]map[int]bool // acyclic reachability between the top-level function's blocks
	loopFocus      map[*Loop]*cutRec
	focusLoop      *Loop // set while the preservation obligations of a loop are generated
	root           *Frame // frame of the function under contract
	cuts           []*cutRec
	reqStart       int               // context length before the requires clauses
	curBlock       *ssa.BasicBlock   // block of the top-level frame being executed
	entryLen       int               // context length after the requires clauses
	localKinds     map[string]string // layout kind of local-variable state leaves
	extraDecls     []string
	valueSolver    string
	noEngineAxioms bool      // value queries: drop the engine's quantified heap axioms (set after a failed attempt)
	pre            [2]string // SMT preamble in this VC's float mode (without / with the multiset axiom)
}

func (vc *VC) preambleFor(withMS bool) string {
	if vc.pre[0] == "" {
		vc.e.seqAxioms = vc.usesAxiom("seq_ext")
		vc.pre[0], vc.pre[1] = vc.e.preamble(false), vc.e.preamble(true)
		vc.e.seqAxioms = false
	}
	if withMS {
		return vc.pre[1]
	}
	return vc.pre[0]
}

func (e *Engine) newVC(fn *ssa.Function, fc *FuncContract) *VC {
	return &VC{e: e, fn: fn, fc: fc, short: e.shortName(fn.String()), sorts: map[string]string{},
		oblNames: map[string]int{}, usedTrusted: map[string]bool{}, inlined: map[string]bool{}, callCount: map[string]int{}, localKinds: map[string]string{}}
}

func (vc *VC) declare(name, sort string) {
	if s, ok := vc.sorts[name]; ok {
		if s != sort {
			panic(fmt.Sprintf("redeclaration of %s: %s vs %s", name, s, sort))
		}
		return
	}
	vc.sorts[name] = sort
	vc.cmds = append(vc.cmds, "(declare-const "+name+" "+sort+")")
}

func (vc *VC) fresh(hint, sort string) *Term {
	vc.nfr++
	n := fmt.Sprintf("%s!%d", smtName(hint), vc.nfr)
	vc.declare(n, sort)
	return A(n)
}

func (vc *VC) freshVal(hint string, t types.Type) Val {
	v := Val{Typ: t}
	for _, l := range vc.e.layout(t) {
		v.Leaves = append(v.Leaves, vc.fresh(hint+l.Path, l.Sort))
	}
	return v
}

func (vc *VC) assume(reach, t *Term) {
	if t != nil && t.Op == "and" {
		// one assertion per conjunct: the context slicer and the solvers' quantifier profiles work per assertion
		for _, a := range t.Args {
			vc.assume(reach, a)
		}
		return
	}
	f := Imp(reach, t)
	if f.String() == "true" {
		return
	}
	vc.cmds = append(vc.cmds, "(assert "+f.String()+")")
}

func (vc *VC) define(hint, sort string, t *Term) *Term {
	// avoid a definition for atoms
	if t.Op == "" {
		return t
	}
	c := vc.fresh(hint, sort)
	vc.cmds = append(vc.cmds, "(assert (= "+c.String()+" "+t.String()+"))")
	return c
}

func (vc *VC) oblige(kind, label string, reach, goal *Term, pos token.Pos, src string, props []string, callee string) *Obl {
	g := Imp(reach, goal)
	base := vc.short + "#" + kind
	if label != "" {
		base += "." + label
	}
	vc.oblNames[base]++
	name := base
	if n := vc.oblNames[base]; n > 1 {
		name = fmt.Sprintf("%s~%d", base, n)
	}
	line := 0
	if pos.IsValid() {
		line = vc.e.Fset.Position(pos).Line
	}
	o := &Obl{Name: name, Kind: kind, Label: label, Goal: g, CtxLen: len(vc.cmds), Func: vc.short, Line: line, Src: src, Props: props, Callee: callee, Block: vc.curBlock}
	for _, c := range vc.cuts {
		c := c
		if vc.curBlock != nil && (c.block == vc.curBlock || c.block.Dominates(vc.curBlock)) {
			if !c.soft {
				o.Drops = append(o.Drops, [2]int{c.from, c.to})
			}
			o.Cut = c
		}
	}
	if o.Cut == nil && vc.focusLoop != nil {
		o.Cut = vc.loopFocus[vc.focusLoop]
	}
	if g.String() == "true" {
		o.Status = "unsat"
		o.Solver = "trivial"
	}
	vc.Obls = append(vc.Obls, o)
	return o
}

func (vc *VC) unsupported(format string, args ...interface{}) {
	s := fmt.Sprintf(format, args...)
	for _, u := range vc.Unsupported {
		if u == s {
			return
		}
	}
	vc.Unsupported = append(vc.Unsupported, s)
}

// state variable access -----------------------------------------------------

func (vc *VC) sv(st *State, name, sort string) *Term {
	if t, ok := st.m[name]; ok {
		return t
	}
	return vc.svInit(name, sort)
}

func (vc *VC) svInit(name, sort string) *Term {
	n := smtName(name) + "!0"
	if _, seen := vc.sorts[n]; !seen {
		vc.declare(n, sort)
		if name != allocVar {
			vc.closure(nil, name, A(n), vc.svInit(allocVar, ArrSort("Int", "Bool")))
		} else {
			vc.cmds = append(vc.cmds, "(assert (not (select "+n+" 0)))")
		}
		return A(n)
	}
	return A(n)
}

// closure states Go's memory safety invariant for one reference-valued state variable:
// every reference stored in an allocated object (or backing array, or map) is nil or allocated.
func (vc *VC) closure(st *State, name string, arr, alloc *Term) {
	kind := vc.e.leafKindOf(name)
	if kind != "ref" && kind != "sb" && kind != "map" {
		return
	}
	a, al := arr.String(), alloc.String()
	if kind == "sb" && strings.HasSuffix(name, "#b") && (strings.HasPrefix(name, "H.") || strings.HasPrefix(name, "M.")) {
		// slice headers stored in allocated objects are well-shaped
		stem := name[:len(name)-2]
		srt := vc.sorts[a]
		sib := func(sfx string) string {
			if st == nil {
				return vc.svInit(stem+sfx, srt).String()
			}
			vc.noteSort(stem+sfx, srt)
			return vc.sv(st, stem+sfx, srt).String()
		}
		o, l, c := sib("#o"), sib("#l"), sib("#c")
		if strings.HasPrefix(name, "H.") {
			vc.cmds = append(vc.cmds, fmt.Sprintf("(assert (forall ((r Int)) (! (=> (select %s r) (and (<= 0 (select %s r)) (<= 0 (select %s r)) (<= (select %s r) (select %s r)) (=> (= (select %s r) 0) (and (= (select %s r) 0) (= (select %s r) 0))))) :pattern ((select %s r)) :pattern ((select %s r))))) ;E", al, o, l, l, c, a, l, c, a, l))
		} else {
			// slices stored as elements of an allocated backing array (slices of slices)
			e2 := func(arr string) string { return "(select (select " + arr + " b) p)" }
			vc.cmds = append(vc.cmds, fmt.Sprintf("(assert (forall ((b Int) (p Int)) (! (=> (select %s b) (and (<= 0 %s) (<= 0 %s) (<= %s %s) (=> (= %s 0) (and (= %s 0) (= %s 0))))) :pattern (%s) :pattern (%s)))) ;E", al, e2(o), e2(l), e2(l), e2(c), e2(a), e2(l), e2(c), e2(a), e2(l)))
		}
	}
	switch {
	case strings.HasPrefix(name, "H."):
		vc.cmds = append(vc.cmds, fmt.Sprintf("(assert (forall ((r Int)) (! (=> (select %s r) (or (= (select %s r) 0) (select %s (select %s r)))) :pattern ((select %s r))))) ;E", al, a, al, a, a))
	case strings.HasPrefix(name, "M."):
		vc.cmds = append(vc.cmds, fmt.Sprintf("(assert (forall ((b Int) (p Int)) (! (=> (select %s b) (or (= (select (select %s b) p) 0) (select %s (select (select %s b) p)))) :pattern ((select (select %s b) p))))) ;E", al, a, al, a, a))
	case strings.HasPrefix(name, "MV.") && vc.sorts["sort:"+name] == ArrSort("Int", ArrSort("Int", "Int")):
		vc.cmds = append(vc.cmds, fmt.Sprintf("(assert (forall ((b Int) (p Int)) (! (=> (select %s b) (or (= (select (select %s b) p) 0) (select %s (select (select %s b) p)))) :pattern ((select (select %s b) p))))) ;E", al, a, al, a, a))
	case strings.HasPrefix(name, "G."):
		vc.cmds = append(vc.cmds, fmt.Sprintf("(assert (or (= %s 0) (select %s %s)))", a, al, a))
	}
}

func (vc *VC) stateSort(name string) string {
	if s, ok := vc.sorts[smtName(name)+"!0"]; ok {
		return s
	}
	return ""
}

// LVal is a symbolic location.
type LKind int

const (
	LLocal LKind = iota
	LField
	LElem
	LGlobal
)

type LVal struct {
	Kind LKind
	Typ  types.Type // type stored at the location
	Root string     // state var prefix (without leaf path)
	Obj  *Term      // LField: object ref
	Base *Term      // LElem
	Idx  *Term      // LElem
	Path string     // additional path inside the root
}

func (vc *VC) leafVar(lv *LVal, l Leaf) (name, sort string) {
	name = lv.Root + lv.Path + l.Path
	switch lv.Kind {
	case LLocal, LGlobal:
		sort = l.Sort
	case LField:
		sort = ArrSort("Int", l.Sort)
	case LElem:
		sort = ArrSort("Int", ArrSort("Int", l.Sort))
	}
	return
}

func (vc *VC) load(st *State, lv *LVal) Val {
	v := Val{Typ: lv.Typ}
	for _, l := range vc.e.layout(lv.Typ) {
		name, sort := vc.leafVar(lv, l)
		cur := vc.sv(st, name, sort)
		switch lv.Kind {
		case LLocal, LGlobal:
			v.Leaves = append(v.Leaves, cur)
		case LField:
			v.Leaves = append(v.Leaves, Sel(cur, lv.Obj))
		case LElem:
			v.Leaves = append(v.Leaves, Sel2(cur, lv.Base, lv.Idx))
		}
	}
	return v
}

func (vc *VC) store(st *State, lv *LVal, v Val) {
	ls := vc.e.layout(lv.Typ)
	if len(ls) != len(v.Leaves) {
		// layout mismatch (e.g. untyped nil into pointer): adapt common cases
		v = vc.coerce(v, lv.Typ)
	}
	for i, l := range ls {
		name, sort := vc.leafVar(lv, l)
		switch lv.Kind {
		case LLocal, LGlobal:
			st.m[name] = v.Leaves[i]
		case LField:
			cur := vc.sv(st, name, sort)
			st.m[name] = Sto(cur, lv.Obj, v.Leaves[i])
		case LElem:
			// name the current memory first: Sto2 mentions it twice, and nested updates would grow exponentially
			cur := vc.define(name, sort, vc.sv(st, name, sort))
			st.m[name] = Sto2(cur, lv.Base, lv.Idx, v.Leaves[i])
		}
	}
}

func (vc *VC) coerce(v Val, t types.Type) Val {
	ls := vc.e.layout(t)
	if len(ls) == len(v.Leaves) {
		return Val{Typ: t, Leaves: v.Leaves}
	}
	// nil constant into composite
	if len(v.Leaves) == 1 && v.Leaves[0].String() == "0" {
		return vc.e.zeroVal(t)
	}
	panic(fmt.Sprintf("cannot coerce value of %v (%d leaves) to %v (%d leaves)", v.Typ, len(v.Leaves), t, len(ls)))
}

// object field location
func (vc *VC) fieldLV(obj *Term, structT types.Type, path string, ft types.Type) *LVal {
	return &LVal{Kind: LField, Typ: ft, Root: "H." + typeKey(structT), Obj: obj, Path: path}
}

func (vc *VC) boxLV(obj *Term, t types.Type) *LVal {
	return &LVal{Kind: LField, Typ: t, Root: "H.box." + typeKey(t), Obj: obj}
}

func (vc *VC) elemLV(base, idx *Term, elemT types.Type) *LVal {
	return &LVal{Kind: LElem, Typ: elemT, Root: "M." + typeKey(elemT), Base: base, Idx: idx}
}

// whole-object location for pointer p of type *T
func (vc *VC) derefLV(p *Term, elemT types.Type) *LVal {
	if isStruct(elemT) {
		return &LVal{Kind: LField, Typ: elemT, Root: "H." + typeKey(elemT), Obj: p}
	}
	if _, ok := elemT.Underlying().(*types.Array); ok {
		// pointer to array: p is a base; the "value" is opaque
		return &LVal{Kind: LField, Typ: elemT, Root: "H.arr." + typeKey(elemT), Obj: p}
	}
	return vc.boxLV(p, elemT)
}

const allocVar = "alloc"

func (vc *VC) allocArr(st *State) *Term { return vc.sv(st, allocVar, ArrSort("Int", "Bool")) }

// newRef allocates a fresh reference.
func (vc *VC) newRef(st *State, reach *Term, hint string) *Term {
	r := vc.fresh(hint, "Int")
	al := vc.allocArr(st)
	vc.assume(reach, And(App(">", r, Zero), Not(Sel(al, r))))
	st.m[allocVar] = Sto(al, r, TTrue)
	return r
}

// SMT script for one obligation
func (vc *VC) script(o *Obl, withModel bool) string {
	var sb strings.Builder
	sb.WriteString("; obligation " + o.Name + "\n")
	if o.Src != "" {
		sb.WriteString("; clause: " + strings.ReplaceAll(o.Src, "\n", " ") + "\n")
	}
	sb.WriteString("(set-option :produce-models true)\n(set-logic ALL)\n")
	sb.WriteString(vc.preambleFor(vc.usesMS(o.CtxLen, o.Goal)))
	for i, c := range vc.cmds[:o.CtxLen] {
		if vc.hidden(o, i, c) {
			continue
		}
		sb.WriteString(c)
		sb.WriteByte('\n')
	}
	if o.part {
		sb.WriteString("(declare-fun keep!terms (Bool) Bool)\n(assert (keep!terms true))\n(assert (keep!terms false))\n")
	}
	sb.WriteString("(assert (not " + o.Goal.String() + "))\n(check-sat)\n")
	if withModel {
		sb.WriteString("(get-model)\n")
	}
	return sb.String()
}

// families returns the heap / memory / map state-variable families (names without version suffix) mentioned in text.
func (vc *VC) families(text string, fams []string, out map[string]bool) {
	for _, f := range fams {
		if out[f] {
			continue
		}
		sn := smtName(f)
		idx := 0
		for {
			k := strings.Index(text[idx:], sn)
			if k < 0 {
				break
			}
			end := idx + k + len(sn)
			if end < len(text) {
				c := text[end]
				// the family name must be followed by a version suffix, not by more of a longer name
				if c == '!' || c == '@' || (c == '.' && end+1 < len(text) && (text[end+1] == 'L' || text[end+1] == 'c')) {
					out[f] = true
					break
				}
			}
			idx = end
		}
	}
}

// slicedScript drops quantified assumptions that speak only about state-variable families the goal does not mention.
// Dropping assumptions is sound; a proof of the sliced query is a proof of the obligation.
func (vc *VC) slicedScript(o *Obl) string {
	var fams []string
	for k := range vc.sorts {
		if strings.HasPrefix(k, "sort:") {
			n := k[5:]
			if strings.HasPrefix(n, "H.") || strings.HasPrefix(n, "M.") || strings.HasPrefix(n, "MD.") || strings.HasPrefix(n, "MV.") {
				fams = append(fams, n)
			}
		}
	}
	sort.Slice(fams, func(i, j int) bool { return len(fams[i]) > len(fams[j]) })
	goalF := map[string]bool{}
	vc.families(o.Goal.String(), fams, goalF)
	// one round of closure through non-engine quantified assumptions (invariants, contracts) that touch the goal's families
	cmds := vc.cmds[:o.CtxLen]
	keep := make([]bool, len(cmds))
	cone := map[string]bool{}
	for f := range goalF {
		cone[f] = true
	}
	for i, c := range cmds {
		if !strings.Contains(c, "(forall ") {
			keep[i] = true
			continue
		}
		if strings.HasSuffix(c, ";E") {
			continue
		}
		cf := map[string]bool{}
		vc.families(c, fams, cf)
		hit := len(cf) == 0
		for f := range cf {
			if goalF[f] {
				hit = true
			}
		}
		if hit {
			keep[i] = true
			for f := range cf {
				cone[f] = true
			}
		}
	}
	for i, c := range cmds {
		if keep[i] || !strings.HasSuffix(c, ";E") {
			continue
		}
		cf := map[string]bool{}
		vc.families(c, fams, cf)
		hit := len(cf) == 0
		for f := range cf {
			if cone[f] {
				hit = true
			}
		}
		keep[i] = hit
	}
	var sb strings.Builder
	sb.WriteString("; obligation " + o.Name + " (sliced)\n(set-logic ALL)\n")
	sb.WriteString(vc.preambleFor(vc.usesMS(o.CtxLen, o.Goal)))
	for i, c := range cmds {
		if keep[i] && !vc.hidden(o, i, c) {
			sb.WriteString(c)
			sb.WriteByte('\n')
		}
	}
	if o.part {
		sb.WriteString("(declare-fun keep!terms (Bool) Bool)\n(assert (keep!terms true))\n(assert (keep!terms false))\n")
	}
	sb.WriteString("(assert (not " + o.Goal.String() + "))\n(check-sat)\n")
	return sb.String()
}

func (vc *VC) usesMS(n int, goal *Term) bool {
	if vc.usesAxiom("seq_ext") {
		return true
	}
	if goal != nil && strings.Contains(goal.String(), "msOfF") {
		return true
	}
	for _, c := range vc.cmds[:n] {
		if strings.Contains(c, "msOfF") {
			return true
		}
	}
	return false
}

func (e *Engine) preamble(withMS bool) string {
	var sb strings.Builder
	sb.WriteString("(declare-sort MSet 0)\n")
	names := make([]string, 0, len(e.UFuncs))
	for n := range e.UFuncs {
		names = append(names, n)
	}
	sort.Strings(names)
	mode := "fp"
	if e.FloatSort == "Real" {
		mode = "real"
	}
	defined := map[string]bool{}
	for _, d := range e.SmtDefs {
		if d.Mode == "" || d.Mode == mode {
			if fs := strings.Fields(strings.TrimPrefix(strings.TrimPrefix(d.Text, "(define-fun-rec"), "(define-fun")); len(fs) > 0 {
				defined[fs[0]] = true
			}
		}
	}
	for _, n := range names {
		u := e.UFuncs[n]
		if defined[n] {
			continue
		}
		sb.WriteString("(declare-fun " + u.Name + " (" + e.floatSorts(strings.Join(u.Args, " ")) + ") " + e.floatSorts(u.Ret) + ")\n")
	}
	sb.WriteString("(declare-fun msOfF ((Array Int " + e.FloatSort + ") Int Int) MSet)\n(declare-fun msOfI ((Array Int Int) Int Int) MSet)\n")
	if withMS {
		sb.WriteString("(assert (forall ((a (Array Int " + e.FloatSort + ")) (oa Int) (b (Array Int " + e.FloatSort + ")) (ob Int) (n Int)) (! (=> (forall ((k Int)) (=> (and (<= 0 k) (< k n)) (= (select a (+ oa k)) (select b (+ ob k))))) (= (msOfF a oa n) (msOfF b ob n))) :pattern ((msOfF a oa n) (msOfF b ob n)))))\n")
	}
	sb.WriteString("(declare-sort VSeq 0)\n(declare-fun seqOfF ((Array Int " + e.FloatSort + ") Int Int) VSeq)\n(declare-fun seqOfI ((Array Int Int) Int Int) VSeq)\n")
	sb.WriteString("(declare-fun seqAtF (VSeq Int) " + e.FloatSort + ")\n(declare-fun seqAtI (VSeq Int) Int)\n(declare-fun seqLen (VSeq) Int)\n")
	if withMS && e.seqAxioms {
		for _, x := range [][2]string{{"F", e.FloatSort}, {"I", "Int"}} {
			f, srt := "seqOf"+x[0], x[1]
			// extensionality (pointwise equal => equal), element access and length
			sb.WriteString("(assert (forall ((a (Array Int " + srt + ")) (oa Int) (b (Array Int " + srt + ")) (ob Int) (n Int)) (! (=> (forall ((k Int)) (=> (and (<= 0 k) (< k n)) (= (select a (+ oa k)) (select b (+ ob k))))) (= (" + f + " a oa n) (" + f + " b ob n))) :pattern ((" + f + " a oa n) (" + f + " b ob n)))))\n")
			sb.WriteString("(assert (forall ((a (Array Int " + srt + ")) (oa Int) (n Int) (k Int)) (! (=> (and (<= 0 k) (< k n)) (= (seqAt" + x[0] + " (" + f + " a oa n) k) (select a (+ oa k)))) :pattern ((seqAt" + x[0] + " (" + f + " a oa n) k)))))\n")
			sb.WriteString("(assert (forall ((a (Array Int " + srt + ")) (oa Int) (n Int)) (! (=> (<= 0 n) (= (seqLen (" + f + " a oa n)) n)) :pattern ((" + f + " a oa n)))))\n")
		}
	}
	sb.WriteString("(declare-fun f2i (" + e.FloatSort + ") Int)\n")
	if e.FloatSort == "Real" {
		sb.WriteString("(declare-const real.posInf Real)\n(declare-const real.negInf Real)\n")
	}
	sb.WriteString("(declare-fun strcat (Int Int) Int)\n(declare-fun strlen (Int) Int)\n")
	sb.WriteString("(declare-fun isNaN (" + e.FloatSort + ") Bool)\n")
	sb.WriteString("(declare-fun fmulU (" + e.FloatSort + " " + e.FloatSort + ") " + e.FloatSort + ")\n")
	sb.WriteString("(declare-fun fdivU (" + e.FloatSort + " " + e.FloatSort + ") " + e.FloatSort + ")\n")
	if e.FloatSort == "Real" {
		// the only facts about the uninterpreted product: zero is absorbing, one is neutral (true of real multiplication)
		sb.WriteString("(assert (forall ((c Real)) (! (= (fmulU 0.0 c) 0.0) :pattern ((fmulU 0.0 c)))))\n(assert (forall ((c Real)) (! (= (fmulU c 0.0) 0.0) :pattern ((fmulU c 0.0)))))\n")
		sb.WriteString("(assert (forall ((c Real)) (! (= (fmulU 1.0 c) c) :pattern ((fmulU 1.0 c)))))\n(assert (forall ((c Real)) (! (= (fmulU c 1.0) c) :pattern ((fmulU c 1.0)))))\n")
	}
	for _, d := range e.SmtDefs {
		if d.Mode == "" || d.Mode == mode {
			sb.WriteString(e.floatSorts(d.Text) + "\n")
		}
	}
	return sb.String()
}

// focusedScript: for an obligation behind a `cut`: the quantifier-free context, the quantified facts stated after
// the cut, and of the cut's facts only the ones marked keep(...) plus the one carrying the obligation's own label
// (cut.<label> or cut<ordinal>). Quantified requires are left out (the cut restates what is needed of them).
func (vc *VC) focusedScript(o *Obl) string {
	var sb strings.Builder
	sb.WriteString("; obligation " + o.Name + " (focused context after cut)\n(set-logic ALL)\n")
	sb.WriteString(vc.preambleFor(vc.usesMS(o.CtxLen, o.Goal)))
	for i, c := range vc.cmds[:o.CtxLen] {
		if vc.hidden(o, i, c) {
			continue
		}
		q := strings.Contains(c, "(forall ")
		if q && !o.Cut.loop && i >= vc.reqStart && i < vc.entryLen && !strings.HasSuffix(c, ";E") {
			continue
		}
		if q && i >= o.Cut.from && i < o.Cut.to {
			continue
		}
		if l, ok := o.Cut.facts[i]; ok && q {
			if !(o.Cut.keep[l] || l == "cut."+o.Label || l == "cut"+o.Label || (o.Cut.loop && l == o.Label)) {
				continue
			}
		}
		sb.WriteString(c)
		sb.WriteByte('\n')
	}
	if o.part {
		sb.WriteString("(declare-fun keep!terms (Bool) Bool)\n(assert (keep!terms true))\n(assert (keep!terms false))\n")
	}
	sb.WriteString("(assert (not " + o.Goal.String() + "))\n(check-sat)\n")
	return sb.String()
}
