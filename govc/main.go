package main

import (
	"flag"
	"fmt"
	"os"
	"path/filepath"
	"sort"
	"strings"
	"sync"
	"time"
)

func usage() {
	fmt.Fprintln(os.Stderr, `govc - contract verifier for goNEAT
  govc verify [-repo DIR] [-ext DIR] [-out DIR] [-t SEC] KEY...   verify functions (suffix match on canonical name)
  govc check  -prop ID [-tier quick|thorough] ...                 run the check for one property
  govc list                                                        list contracts and their properties`)
	os.Exit(2)
}

func main() {
	if len(os.Args) < 2 {
		usage()
	}
	switch os.Args[1] {
	case "verify":
		cmdVerify(os.Args[2:])
	case "check":
		cmdCheck(os.Args[2:])
	case "list":
		cmdList(os.Args[2:])
	default:
		usage()
	}
}

func load(repo, ext string) *Engine {
	t0 := time.Now()
	e, err := NewEngine(repo)
	if err != nil {
		fmt.Fprintln(os.Stderr, "load error:", err)
		os.Exit(2)
	}
	if err := e.LoadSpecs(ext); err != nil {
		fmt.Fprintln(os.Stderr, "contract error:", err)
		os.Exit(2)
	}
	fmt.Fprintf(os.Stderr, "loaded %d functions, %d contracts in %.1fs\n", len(e.Funcs), len(e.Contracts), time.Since(t0).Seconds())
	return e
}

func (e *Engine) matchKeys(pats []string) []string {
	var keys []string
	for k, fc := range e.Contracts {
		if fc.Trusted {
			continue
		}
		if e.lookupFunc(k) == nil && !fc.IsLemma {
			continue
		}
		for _, p := range pats {
			if p == "all" || strings.Contains(k, p) || strings.Contains(e.shortName(k), p) {
				keys = append(keys, k)
				break
			}
		}
	}
	sort.Strings(keys)
	return keys
}

func cmdVerify(args []string) {
	fs := flag.NewFlagSet("verify", flag.ExitOnError)
	repo := fs.String("repo", "/repo", "repository")
	ext := fs.String("ext", "/verif/contracts", "external contracts dir")
	out := fs.String("out", "/verif/out/vc/adhoc", "output dir")
	tq := fs.Int("t", 10, "solver seconds")
	verbose := fs.Bool("v", false, "print obligations")
	dbg := fs.Bool("panic", false, "do not recover engine panics")
	cores := fs.Float64("cores", 0, "extract proof hints (unsat cores) for obligations slower than this many seconds and store them under -hints")
	hdir := fs.String("hints", "/verif/hints", "proof hints dir")
	coreof := fs.String("coreof", "", "only write <obligation>.core.smt2 (all quantified assumptions named) for obligations whose name contains this text")
	fs.Parse(args)
	debugPanic = *dbg
	if *cores == 0 {
		loadHints(*hdir)
	}
	e := load(*repo, *ext)
	keys := e.matchKeys(fs.Args())
	if len(keys) == 0 {
		// allow verifying functions without contract
		for _, p := range fs.Args() {
			for k := range e.Funcs {
				if strings.HasSuffix(k, p) {
					keys = append(keys, k)
				}
			}
		}
	}
	bad := 0
	for _, k := range keys {
		t0 := time.Now()
		res := e.Verify(k)
		var items []struct {
			vc *VC
			o  *Obl
		}
		for _, o := range res.Obls {
			items = append(items, struct {
				vc *VC
				o  *Obl
			}{res.VC, o})
		}
		if *coreof != "" {
			os.MkdirAll(*out, 0o755)
			for _, o := range res.Obls {
				if strings.Contains(o.Name, *coreof) {
					script, _ := res.VC.coreScript(o)
					f := filepath.Join(*out, smtName(o.Name)+".core.smt2")
					os.WriteFile(f, []byte(script), 0o644)
					fmt.Println(f)
				}
			}
			continue
		}
		SolveAll(items, *out, 16, *tq, *tq*3, false)
		if *cores > 0 {
			extractHints(res.VC, res.Obls, *out, *hdir, *cores, res.Short)
		}
		ok := 0
		for _, o := range res.Obls {
			if o.Status == "unsat" {
				ok++
			}
		}
		fmt.Printf("%s: %d/%d obligations discharged (%.1fs)\n", res.Short, ok, len(res.Obls), time.Since(t0).Seconds())
		for _, er := range res.Errors {
			fmt.Println("   ERROR:", er)
			bad++
		}
		for _, u := range res.Unsupported {
			fmt.Println("   abstracted:", u)
		}
		for _, o := range res.Obls {
			if o.Status != "unsat" || *verbose {
				fmt.Printf("   %-8s %-60s L%d %s %.2fs  %s\n", o.Status, o.Name, o.Line, o.Solver, o.TimeS, o.File)
				if o.Status != "unsat" {
					bad++
				}
			}
		}
	}
	if bad > 0 {
		os.Exit(1)
	}
}

func cmdList(args []string) {
	fs := flag.NewFlagSet("list", flag.ExitOnError)
	repo := fs.String("repo", "/repo", "repository")
	ext := fs.String("ext", "/verif/contracts", "external contracts dir")
	fs.Parse(args)
	e := load(*repo, *ext)
	var keys []string
	for k := range e.Contracts {
		keys = append(keys, k)
	}
	sort.Strings(keys)
	for _, k := range keys {
		fc := e.Contracts[k]
		tag := ""
		if fc.Trusted {
			tag = " (trusted)"
		}
		fmt.Printf("%-70s %v%s\n", e.shortName(k), fc.Props, tag)
	}
}

// extractHints stores the unsat cores of the slow obligations (of the whole goal, or of its conjuncts when the whole
// goal is too hard) as proof hints.
func extractHints(vc *VC, obls []*Obl, out, hdir string, slower float64, fn string) {
	type job struct{ o *Obl }
	var jobs []*Obl
	for _, o := range obls {
		if o.Status != "unsat" || o.TimeS < slower {
			continue
		}
		jobs = append(jobs, o)
	}
	res := map[string][]string{}
	var mu sync.Mutex
	var wg sync.WaitGroup
	sem := make(chan bool, 12)
	run := func(o *Obl) bool {
		core := vc.extractCore(o, out, 120)
		if core == nil {
			return false
		}
		mu.Lock()
		res[o.Name] = core
		mu.Unlock()
		return true
	}
	for _, o := range jobs {
		wg.Add(1)
		go func(o *Obl) {
			defer wg.Done()
			sem <- true
			defer func() { <-sem }()
			if run(o) {
				return
			}
			parts := splitGoal(o.Goal)
			if len(parts) <= 1 {
				fmt.Println("   no core for", o.Name)
				return
			}
			for i, p := range parts {
				sub := *o
				sub.Goal, sub.Name, sub.part = p, fmt.Sprintf("%s.c%d", o.Name, i+1), true
				if !run(&sub) {
					fmt.Println("   no core for", sub.Name)
				}
			}
		}(o)
	}
	wg.Wait()
	if err := saveHints(hdir, fn, res); err != nil {
		fmt.Println("   cannot save hints:", err)
	}
	fmt.Printf("   %d proof hints stored for %s\n", len(res), fn)
}
