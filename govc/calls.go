package main

import (
	"fmt"
	"go/token"
	"go/types"
	"sort"
	"strings"

	"golang.org/x/tools/go/ssa"
)

const maxInlineDepth = 6

// calleeKey returns the contract key of a call and, when statically known, the callee.
func (fr *Frame) calleeKey(c *ssa.CallCommon, st *State) (string, *ssa.Function, *closureInfo) {
	if c.IsInvoke() {
		recv := c.Value.Type()
		return "(" + recv.String() + ")." + c.Method.Name(), nil, nil
	}
	if f := c.StaticCallee(); f != nil {
		return f.String(), f, nil
	}
	switch v := c.Value.(type) {
	case *ssa.UnOp:
		if g, ok := v.X.(*ssa.Global); ok {
			return "var " + g.String(), nil, nil
		}
	}
	// closure stored in a register / local
	if val, ok := fr.env[c.Value]; ok && len(val.Leaves) == 1 {
		if ci := fr.closures()[val.T().String()]; ci != nil {
			return ci.fn.String(), ci.fn, ci
		}
	}
	return "", nil, nil
}

func (fr *Frame) call(ins *ssa.Call, c *ssa.CallCommon, reach *Term, st *State) *Term {
	vc := fr.vc
	e := vc.e
	var pos token.Pos
	if ins != nil {
		pos = ins.Pos()
	} else {
		pos = c.Pos()
	}
	setRes := func(v Val) {
		if ins != nil {
			fr.setReg(ins, v)
		}
	}
	resType := c.Signature().Results()
	var resT types.Type
	if ins != nil {
		resT = ins.Type()
	}
	if b, ok := c.Value.(*ssa.Builtin); ok {
		return fr.builtin(ins, b, c, reach, st, pos)
	}
	// sync/atomic read-modify-write on a field or variable address: modelled exactly (one indivisible step)
	if sc := c.StaticCallee(); sc != nil && sc.Pkg != nil && sc.Pkg.Pkg.Path() == "sync/atomic" && strings.HasPrefix(sc.Name(), "Add") && len(c.Args) == 2 {
		if av := fr.val(c.Args[0], st); av.LV != nil {
			fr.noteLV(av.LV)
			cur := vc.load(st, av.LV)
			nv := scalar(cur.Typ, IAdd(cur.T(), fr.val(c.Args[1], st).T()))
			vc.store(st, av.LV, nv)
			setRes(scalar(resT, nv.T()))
			vc.usedTrusted["sync/atomic."+sc.Name()+" (modelled as one atomic step)"] = true
			return reach
		}
	}
	// sync/atomic Load on a field or variable address: an interference point. Between this goroutine's previous atomic
	// operation and the load any other goroutine may have changed the location, so the value read is unconstrained (and
	// becomes the value this goroutine knows). A sequentially correct "Add, then Load" thus does not return the value of
	// its own Add.
	if sc := c.StaticCallee(); sc != nil && sc.Pkg != nil && sc.Pkg.Pkg.Path() == "sync/atomic" && strings.HasPrefix(sc.Name(), "Load") && len(c.Args) == 1 {
		if av := fr.val(c.Args[0], st); av.LV != nil {
			fr.noteLV(av.LV)
			cur := vc.load(st, av.LV)
			nv := vc.freshVal("atomic.load", cur.Typ)
			vc.store(st, av.LV, nv)
			setRes(scalar(resT, nv.T()))
			vc.usedTrusted["sync/atomic."+sc.Name()+" (modelled as an interference point: the value read is unconstrained)"] = true
			return reach
		}
	}
	var args []Val
	for _, a := range c.Args {
		args = append(args, fr.reify(fr.val(a, st)))
	}
	key, callee, ci := fr.calleeKey(c, st)
	if c.IsInvoke() {
		recv := fr.val(c.Value, st)
		args = append([]Val{recv}, args...)
	}
	if key == "" {
		vc.unsupported("%s: dynamic call through %s", vc.short, c.Value.Name())
		if resT != nil {
			setRes(vc.freshVal("dyncall", resT))
		}
		return reach
	}
	vc.callCount[key]++
	ordinal := fr.sourceOrdinal(c, pos)
	fc := e.Contracts[key]
	if fc != nil && !fc.Inline {
		return fr.applyContract(ins, fc, key, callee, args, c, reach, st, pos, ordinal)
	}
	if callee != nil && len(callee.Blocks) > 0 && fr.depth < maxInlineDepth && e.canInline(callee) {
		// a call that is inlined is an anchor for ghost statements as well (`@ before * ID`)
		fr.ghostArgs = args
		fr.ghostStmts(key, ordinal, "before", st, reach)
		fr.ghostArgs = nil
		r := fr.inline(ins, callee, ci, args, reach, st, pos)
		if ins != nil {
			if rv, ok := fr.env[ins]; ok {
				if _, tup := ins.Type().(*types.Tuple); !tup {
					fr.ghostResults = []Val{rv}
				}
			}
		}
		fr.ghostStmts(key, ordinal, "after", st, r)
		fr.ghostResults = nil
		return r
	}
	if callee != nil && len(callee.Blocks) > 0 {
		vc.Errors = append(vc.Errors, fmt.Sprintf("call to %s needs a contract (has loops or inlining too deep)", e.shortName(key)))
	} else {
		vc.Errors = append(vc.Errors, fmt.Sprintf("call to %s has no contract", e.shortName(key)))
	}
	_ = resType
	if resT != nil {
		setRes(vc.freshVal("nocontract", resT))
	}
	return reach
}

func (e *Engine) canInline(f *ssa.Function) bool {
	li := analyzeLoops(f)
	if len(li.loops) > 0 {
		return false
	}
	for _, b := range f.Blocks {
		for _, in := range b.Instrs {
			switch in.(type) {
			case *ssa.Go, *ssa.Select, *ssa.Defer:
				return false
			}
			if c, ok := in.(*ssa.Call); ok {
				if sc := c.Common().StaticCallee(); sc == f {
					return false
				}
			}
		}
	}
	return true
}

func (fr *Frame) inline(ins *ssa.Call, callee *ssa.Function, ci *closureInfo, args []Val, reach *Term, st *State, pos token.Pos) *Term {
	vc := fr.vc
	sub := vc.newFrame(callee, fr.depth+1)
	sub.site = fr.lbl("in." + shortFn(vc.e.shortName(callee.String())))
	sub.sitePos = fr.pos(pos)
	sub.fc = nil
	sub.edgeReach = map[[2]int]*Term{}
	vc.inlined[vc.e.shortName(callee.String())] = true
	for i, p := range callee.Params {
		if i < len(args) {
			sub.env[p] = vc.coerce(args[i], p.Type())
			sub.params[p.Name()] = sub.env[p]
		}
	}
	if ci != nil {
		for i, fv := range callee.FreeVars {
			sub.env[fv] = ci.frame.val(ci.bindings[i], st)
		}
	}
	sub.entry = st
	rets := sub.run(reach, st.clone())
	if len(rets) == 0 {
		// never returns normally
		return TFalse
	}
	// merge returns back
	var cs []contrib
	for _, r := range rets {
		cs = append(cs, contrib{r.reach, r.st})
	}
	nreach, nst := fr.merge(callee.Blocks[0], cs)
	for k := range st.m {
		delete(st.m, k)
	}
	for k, v := range nst.m {
		st.m[k] = v
	}
	if ins != nil && len(rets[0].vals) > 0 {
		// result value(s)
		nres := len(rets[0].vals)
		var out Val
		out.Typ = ins.Type()
		for ri := 0; ri < nres; ri++ {
			nl := len(rets[0].vals[ri].Leaves)
			for li := 0; li < nl; li++ {
				m := rets[len(rets)-1].vals[ri].Leaves[li]
				for k := len(rets) - 2; k >= 0; k-- {
					m = Ite(rets[k].reach, rets[k].vals[ri].Leaves[li], m)
				}
				srt := "Int"
				ls := vc.e.layout(rets[0].vals[ri].Typ)
				if li < len(ls) {
					srt = ls[li].Sort
				}
				out.Leaves = append(out.Leaves, vc.define(ins.Name()+"."+sub.id, srt, m))
			}
		}
		fr.setReg(ins, out)
	}
	return nreach
}

func shortFn(s string) string {
	if k := strings.LastIndex(s, "."); k >= 0 {
		return s[k+1:]
	}
	return s
}

// paramNames returns the names to bind call arguments to when evaluating a contract.
func (e *Engine) paramNames(fc *FuncContract, callee *ssa.Function, c *ssa.CallCommon, n int) []string {
	if len(fc.Params) > 0 {
		return fc.Params
	}
	var names []string
	if callee != nil && len(callee.Params) > 0 {
		for _, p := range callee.Params {
			names = append(names, p.Name())
		}
		return names
	}
	sig := c.Signature()
	if c.IsInvoke() {
		names = append(names, "recv")
	} else if sig.Recv() != nil {
		rn := sig.Recv().Name()
		if rn == "" || rn == "_" {
			rn = "recv"
		}
		names = append(names, rn)
	}
	for i := 0; i < sig.Params().Len(); i++ {
		pn := sig.Params().At(i).Name()
		if pn == "" || pn == "_" {
			pn = fmt.Sprintf("arg%d", i)
		}
		names = append(names, pn)
	}
	return names
}

func (fr *Frame) applyContract(ins *ssa.Call, fc *FuncContract, key string, callee *ssa.Function, args []Val, c *ssa.CallCommon, reach *Term, st *State, pos token.Pos, ordinal int) *Term {
	vc := fr.vc
	e := vc.e
	short := e.shortName(key)
	if fc.Trusted {
		vc.usedTrusted[short] = true
	}
	names := e.paramNames(fc, callee, c, len(args))
	pre := st.clone()
	nq := 0
	mk := func(cur, old *State) *Scope {
		sc := &Scope{vc: vc, vars: map[string]Val{}, cur: cur, old: old, nq: &nq}
		if fc.Pkg != "" && e.Pkgs[fc.Pkg] != nil {
			sc.pkg = e.Pkgs[fc.Pkg].Types
		} else if callee != nil && callee.Pkg != nil {
			sc.pkg = callee.Pkg.Pkg
		} else {
			sc.pkg = fr.fn.Pkg.Pkg
		}
		for i, n := range names {
			if i < len(args) {
				sc.vars[n] = args[i]
				sc.vars[fmt.Sprintf("$%d", i)] = args[i]
			}
		}
		return sc
	}
	fr.ghostArgs = args
	fr.ghostStmts(key, ordinal, "before", st, reach)
	fr.ghostArgs = nil
	for i, rq := range fc.Requires {
		sc := mk(st, st)
		t, err := sc.compileBool(rq.Expr)
		if err != nil {
			vc.Errors = append(vc.Errors, fmt.Sprintf("requires %d of %s: %v", i+1, short, err))
			continue
		}
		if vc.fc != nil && assumesPre(vc.fc, short) {
			// the caller's contract declares this callee's preconditions an assumption of its own proof
			vc.usedTrusted["precondition of "+short+" (assumed at the call sites in "+vc.short+")"] = true
			vc.assume(reach, t)
			continue
		}
		vc.oblige("call."+shortFn(short)+".pre", fr.lbl(clauseLabel(rq, i)), reach, t, fr.pos(pos), rq.Src, rq.Props, short)
	}
	// effect
	ms := e.contractMods(fc, callee, c)
	fr.havoc(st, pre, reach, ms, "c."+shortFn(short))
	var res Val
	var resVals []Val
	if ins != nil {
		res = vc.freshVal(ins.Name()+"."+shortFn(short), ins.Type())
		fr.setReg(ins, res)
		if tup, ok := ins.Type().(*types.Tuple); ok {
			off := 0
			for i := 0; i < tup.Len(); i++ {
				n := len(e.layout(tup.At(i).Type()))
				resVals = append(resVals, Val{Typ: tup.At(i).Type(), Leaves: res.Leaves[off : off+n]})
				off += n
			}
		} else {
			resVals = []Val{res}
		}
		for _, rv := range resVals {
			fr.assumeWellFormed(rv, st, reach)
		}
	}
	for i, en := range fc.Ensures {
		if en.Local {
			continue
		}
		sc := mk(st, pre)
		if len(resVals) == 1 {
			sc.vars["result"] = resVals[0]
		}
		for ri, rv := range resVals {
			sc.vars[fmt.Sprintf("result%d", ri)] = rv
		}
		if callee != nil {
			nr := callee.Signature.Results()
			for ri := 0; ri < nr.Len() && ri < len(resVals); ri++ {
				if n := nr.At(ri).Name(); n != "" && n != "_" {
					sc.vars[n] = resVals[ri]
				}
			}
		}
		t, err := sc.compileBool(en.Expr)
		if err != nil {
			vc.Errors = append(vc.Errors, fmt.Sprintf("ensures %d of %s: %v", i+1, short, err))
			continue
		}
		vc.assume(reach, t)
	}
	fr.ghostResults = resVals
	fr.ghostStmts(key, ordinal, "after", st, reach)
	fr.ghostResults = nil
	return reach
}

// assumeWellFormed: shape facts for values produced by calls.
func (fr *Frame) assumeWellFormed(v Val, st *State, reach *Term) {
	vc := fr.vc
	ls := vc.e.layout(v.Typ)
	al := vc.allocArr(st)
	for i, l := range ls {
		switch l.Kind {
		case "ref", "sb", "map":
			vc.assume(reach, Or(Eq(v.Leaves[i], Zero), Sel(al, v.Leaves[i])))
		case "it":
			if i+1 < len(ls) {
				vc.assume(reach, Imp(Eq(v.Leaves[i], Zero), Eq(v.Leaves[i+1], Zero)))
				vc.assume(reach, App(">=", v.Leaves[i], Zero))
			}
		}
		if l.Kind == "sb" && i+3 < len(ls) {
			vc.assume(reach, fr.sliceShape(Val{Leaves: v.Leaves[i : i+4]}))
		}
	}
}

func (fr *Frame) ghostStmts(key string, ordinal int, when string, st *State, reach *Term) {
	vc := fr.vc
	if vc.fc == nil || len(vc.fc.Ghost) == 0 {
		return
	}
	// a call inside an inlined helper (depth > 0) is an anchor too: the ordinal then counts within the helper, the statement's
	// expression is evaluated in the scope of the function under contract (vc.root) plus arg0.. / result of this call
	if fr.depth > 0 && vc.root == nil {
		return
	}
	short := vc.e.shortName(key)
	var here []*GhostStmt
	cut := false
	for _, gs := range vc.fc.Ghost {
		if gs.When != when || (gs.CallOrdinal != ordinal && gs.CallOrdinal != -1) {
			continue
		}
		if strings.HasSuffix(gs.Callee, "*") {
			// name prefix: `@ before * mutate*` = before every call of a function whose name starts with mutate
			if !strings.HasPrefix(shortFn(short), strings.TrimSuffix(gs.Callee, "*")) {
				continue
			}
		} else if !(gs.Callee == shortFn(short) || gs.Callee == short) {
			continue
		}
		here = append(here, gs)
		cut = cut || gs.Cut
	}
	var facts []*Term
	var labels []string
	var keep []string
	soft := false
	for _, gs := range here {
		switch {
		case gs.Cut:
			keep = gs.Keep
			soft = gs.Soft
		case gs.Assert != nil:
			if t := fr.ghostAssert(gs, st, reach, !cut); t != nil {
				facts = append(facts, t)
				labels = append(labels, clauseLabel(gs.Assert, 0))
			}
		default:
			fr.ghostAssign(gs, st)
		}
	}
	if cut {
		// forget: obligations of the code dominated by this point see the requires, the declarations and the facts just proved
		rec := &cutRec{block: vc.curBlock, from: vc.entryLen, to: len(vc.cmds), facts: map[int]string{}, keep: map[string]bool{}, soft: soft}
		for _, l := range keep {
			rec.keep[l] = true
		}
		vc.cuts = append(vc.cuts, rec)
		for i, t := range facts {
			n0 := len(vc.cmds)
			vc.assume(reach, t)
			for j := n0; j < len(vc.cmds); j++ {
				rec.facts[j] = labels[i]
			}
		}
	}
}

// ghostAssert: an intermediate assertion of the contract, proved where it stands and then assumed.
func (fr *Frame) ghostAssert(gs *GhostStmt, st *State, reach *Term, assumeNow bool) *Term {
	vc := fr.vc
	if fr.depth > 0 && vc.root != nil {
		root := vc.root
		root.ghostResults, root.ghostArgs = fr.ghostResults, fr.ghostArgs
		defer func() { root.ghostResults, root.ghostArgs = nil, nil }()
		fr = root
	}
	sc := fr.baseScope(st)
	if len(fr.ghostResults) == 1 {
		sc.vars["result"] = fr.ghostResults[0]
	}
	for i, rv := range fr.ghostResults {
		sc.vars[fmt.Sprintf("result%d", i)] = rv
	}
	for i, av := range fr.ghostArgs {
		sc.vars[fmt.Sprintf("arg%d", i)] = av // arguments of the call the statement is anchored before (arg0 = receiver)
	}
	t, err := sc.compileBool(gs.Expr)
	if err != nil {
		vc.Errors = append(vc.Errors, fmt.Sprintf("assert %s: %v", gs.Src, err))
		return nil
	}
	vc.oblige("assert", clauseLabel(gs.Assert, 0), reach, t, fr.fn.Pos(), gs.Assert.Src, gs.Assert.Props, "")
	if assumeNow {
		vc.assume(reach, t)
	}
	return t
}

func (fr *Frame) ghostAssign(gs *GhostStmt, st *State) {
	vc := fr.vc
	if fr.depth > 0 && vc.root != nil {
		root := vc.root
		root.ghostResults, root.ghostArgs = fr.ghostResults, fr.ghostArgs
		defer func() { root.ghostResults, root.ghostArgs = nil, nil }()
		fr = root
	}
	gd := vc.e.Ghosts[gs.Var]
	if gd == nil {
		vc.Errors = append(vc.Errors, "unknown ghost variable "+gs.Var)
		return
	}
	sc := fr.baseScope(st)
	if len(fr.ghostResults) == 1 {
		sc.vars["result"] = fr.ghostResults[0]
	}
	for i, rv := range fr.ghostResults {
		sc.vars[fmt.Sprintf("result%d", i)] = rv
	}
	v, err := sc.compileVal(gs.Expr)
	if err != nil {
		vc.Errors = append(vc.Errors, fmt.Sprintf("ghost set %s: %v", gs.Var, err))
		return
	}
	n := "ghost." + gs.Var
	vc.noteSort(n, gd.Sort)
	st.m[n] = v.T()
}

// ---------------------------------------------------------------------------
// builtins

func (fr *Frame) builtin(ins *ssa.Call, b *ssa.Builtin, c *ssa.CallCommon, reach *Term, st *State, pos token.Pos) *Term {
	vc := fr.vc
	setRes := func(v Val) {
		if ins != nil {
			fr.setReg(ins, v)
		}
	}
	switch b.Name() {
	case "len":
		x := fr.val(c.Args[0], st)
		switch c.Args[0].Type().Underlying().(type) {
		case *types.Slice:
			setRes(scalar(tInt, x.sLen()))
		case *types.Basic:
			n := App("strlen", x.T())
			vc.assume(reach, App(">=", n, Zero))
			setRes(scalar(tInt, n))
		default:
			n := vc.fresh("len", "Int")
			vc.assume(reach, App(">=", n, Zero))
			if _, isMap := c.Args[0].Type().Underlying().(*types.Map); isMap {
				vc.unsupported("%s: len(map)", vc.short)
			}
			setRes(scalar(tInt, n))
		}
	case "cap":
		x := fr.val(c.Args[0], st)
		if len(x.Leaves) == 4 {
			setRes(scalar(tInt, x.sCap()))
		} else {
			setRes(scalar(tInt, vc.fresh("cap", "Int")))
		}
	case "append":
		// the builtin is an anchor for ghost statements (`set g = e @ before 2 append`): loops that only append have no other call
		ord := fr.sourceOrdinal(c, pos)
		fr.ghostArgs = []Val{fr.val(c.Args[0], st), fr.val(c.Args[1], st)}
		fr.ghostStmts("append", ord, "before", st, reach)
		fr.ghostArgs = nil
		fr.appendOp(ins, c, reach, st, pos)
		if ins != nil {
			if rv, ok := fr.env[ins]; ok {
				fr.ghostResults = []Val{rv}
			}
		}
		fr.ghostStmts("append", ord, "after", st, reach)
		fr.ghostResults = nil
	case "copy":
		fr.copyOp(ins, c, reach, st)
	case "delete":
		m := fr.val(c.Args[0], st).T()
		mt := c.Args[0].Type().Underlying().(*types.Map)
		k := fr.mapKey(fr.val(c.Args[1], st))
		dn, ds := mapDomVar(mt)
		vc.noteSort(dn, ds)
		cur := vc.define(dn, ds, vc.sv(st, dn, ds))
		st.m[dn] = Ite(Eq(m, Zero), cur, Sto2(cur, m, k, TFalse))
	case "ssa:deferstack":
		setRes(scalar(ins.Type(), Zero))
	case "ssa:wrapnilchk":
		setRes(fr.val(c.Args[0], st))
	case "print", "println":
	case "recover":
		setRes(vc.e.zeroVal(ins.Type()))
	default:
		vc.unsupported("%s: builtin %s", vc.short, b.Name())
		if ins != nil {
			setRes(vc.freshVal(b.Name(), ins.Type()))
		}
	}
	return reach
}

func (fr *Frame) memNames(et types.Type) (names []string, sorts []string, leaves []Leaf) {
	vc := fr.vc
	for _, l := range vc.e.layout(et) {
		n := "M." + typeKey(et) + l.Path
		s := ArrSort("Int", ArrSort("Int", l.Sort))
		vc.noteSort(n, s)
		names = append(names, n)
		sorts = append(sorts, s)
		leaves = append(leaves, l)
	}
	return
}

func (fr *Frame) appendOp(ins *ssa.Call, c *ssa.CallCommon, reach *Term, st *State, pos token.Pos) {
	vc := fr.vc
	s := fr.val(c.Args[0], st)
	t := fr.val(c.Args[1], st)
	sl, ok := c.Args[0].Type().Underlying().(*types.Slice)
	if !ok || len(t.Leaves) != 4 {
		vc.unsupported("%s: append on %s", vc.short, c.Args[0].Type())
		fr.setReg(ins, vc.freshVal("append", ins.Type()))
		return
	}
	et := sl.Elem()
	n := t.sLen()
	newLen := IAdd(s.sLen(), n)
	inPlace := vc.define("append.inplace", "Bool", App("<=", newLen, s.sCap()))
	// fresh base for the reallocation case
	nb := vc.fresh("append.base", "Int")
	al := vc.allocArr(st)
	vc.assume(reach, And(App(">", nb, Zero), Not(Sel(al, nb))))
	st.m[allocVar] = Ite(inPlace, al, Sto(al, nb, TTrue))
	ncap := vc.fresh("append.cap", "Int")
	vc.assume(reach, App(">=", ncap, newLen))
	names, _, leaves := fr.memNames(et)
	one, isOne := isNumAtom(n)
	for i, name := range names {
		l := leaves[i]
		inner := ArrSort("Int", l.Sort)
		srt := ArrSort("Int", inner)
		M := vc.sv(st, name, srt)
		var mIn, mRe *Term
		narr := vc.fresh("append.arr", inner)
		// reallocated array: prefix copied
		vc.cmds = append(vc.cmds, fmt.Sprintf("(assert (forall ((p Int)) (! (=> (and (<= 0 p) (< p %s)) (= (select %s p) (select (select %s %s) (+ %s p)))) :pattern ((select %s p)))))",
			s.sLen(), narr, M, s.sBase(), s.sOff(), narr))
		if isOne && one == 1 {
			x := Sel2(M, t.sBase(), t.sOff())
			mIn = Sto2(M, s.sBase(), IAdd(s.sOff(), s.sLen()), x)
			vc.assume(reach, Eq(Sel(narr, s.sLen()), x))
			mRe = Sto(M, nb, narr)
		} else if isOne && one == 0 {
			mIn = M
			mRe = Sto(M, nb, narr)
		} else {
			// general: quantified description of the appended segment
			iarr := vc.fresh("append.inarr", inner)
			start := IAdd(s.sOff(), s.sLen())
			vc.cmds = append(vc.cmds, fmt.Sprintf("(assert (forall ((p Int)) (! (= (select %s p) (ite (and (<= %s p) (< p (+ %s %s))) (select (select %s %s) (+ %s (- p %s))) (select (select %s %s) p))) :pattern ((select %s p)))))",
				iarr, start, start, n, M, t.sBase(), t.sOff(), start, M, s.sBase(), iarr))
			mIn = Sto(M, s.sBase(), iarr)
			vc.cmds = append(vc.cmds, fmt.Sprintf("(assert (forall ((p Int)) (! (=> (and (<= %s p) (< p %s)) (= (select %s p) (select (select %s %s) (+ %s (- p %s))))) :pattern ((select %s p)))))",
				s.sLen(), newLen, narr, M, t.sBase(), t.sOff(), s.sLen(), narr))
			mRe = Sto(M, nb, narr)
		}
		st.m[name] = Ite(inPlace, mIn, mRe)
	}
	res := Val{Typ: ins.Type(), Leaves: []*Term{
		Ite(inPlace, s.sBase(), nb),
		Ite(inPlace, s.sOff(), Zero),
		newLen,
		Ite(inPlace, s.sCap(), ncap),
	}}
	// appending nothing to a nil slice yields nil
	if isOne && one == 0 {
		res = s
	}
	fr.setReg(ins, res)
}

func (fr *Frame) copyOp(ins *ssa.Call, c *ssa.CallCommon, reach *Term, st *State) {
	vc := fr.vc
	d := fr.val(c.Args[0], st)
	s := fr.val(c.Args[1], st)
	sl, ok := c.Args[0].Type().Underlying().(*types.Slice)
	if !ok || len(s.Leaves) != 4 {
		vc.unsupported("%s: copy on %s", vc.short, c.Args[0].Type())
		if ins != nil {
			fr.setReg(ins, vc.freshVal("copy", ins.Type()))
		}
		return
	}
	n := vc.define("copy.n", "Int", Ite(App("<=", d.sLen(), s.sLen()), d.sLen(), s.sLen()))
	names, _, leaves := fr.memNames(sl.Elem())
	for i, name := range names {
		l := leaves[i]
		inner := ArrSort("Int", l.Sort)
		srt := ArrSort("Int", inner)
		M := vc.sv(st, name, srt)
		arr := vc.fresh("copy.arr", inner)
		vc.cmds = append(vc.cmds, fmt.Sprintf("(assert (forall ((p Int)) (! (= (select %s p) (ite (and (<= %s p) (< p (+ %s %s))) (select (select %s %s) (+ %s (- p %s))) (select (select %s %s) p))) :pattern ((select %s p)))))",
			arr, d.sOff(), d.sOff(), n, M, s.sBase(), s.sOff(), d.sOff(), M, d.sBase(), arr))
		st.m[name] = Ite(Eq(d.sBase(), Zero), M, Sto(M, d.sBase(), arr))
	}
	if ins != nil {
		fr.setReg(ins, scalar(tInt, n))
	}
}

// ---------------------------------------------------------------------------
// modification analysis (syntactic, conservative)

var modCache = map[*ssa.Function]*ModSet{}

var modsInProgress = map[*ssa.Function]bool{}

func (e *Engine) funcMods(f *ssa.Function, visiting map[*ssa.Function]bool) *ModSet {
	if ms, ok := modCache[f]; ok {
		return ms
	}
	if visiting[f] || modsInProgress[f] {
		return newModSet()
	}
	modsInProgress[f] = true
	defer delete(modsInProgress, f)
	visiting[f] = true
	ms := newModSet()
	for _, b := range f.Blocks {
		for _, in := range b.Instrs {
			e.instrMods(in, ms, nil, visiting)
		}
	}
	delete(visiting, f)
	if len(visiting) == 0 {
		modCache[f] = ms
	}
	return ms
}

func (e *Engine) contractMods(fc *FuncContract, callee *ssa.Function, c *ssa.CallCommon) *ModSet {
	ms := newModSet()
	if fc.Pure {
		return ms
	}
	if fc.HasMod {
		for _, d := range fc.Modifies {
			e.designator(d, fc.Pkg, ms)
		}
		if !fc.NoAlloc {
			ms.Alloc = true
			if callee != nil && len(callee.Blocks) > 0 {
				cm := e.funcMods(callee, map[*ssa.Function]bool{})
				for k := range cm.Allocs {
					ms.Allocs[k] = true
				}
				// objects created inside the callee may have any of their fields written
				for k := range cm.Vars {
					if strings.HasPrefix(k, "H.") || strings.HasPrefix(k, "M.") || strings.HasPrefix(k, "MD.") || strings.HasPrefix(k, "MV.") {
						if !ms.Vars[k] {
							ms.Allocs[k] = true
						}
					}
				}
			}
		}
		return ms
	}
	if callee != nil && len(callee.Blocks) > 0 {
		cm := e.funcMods(callee, map[*ssa.Function]bool{})
		ms.union(cm)
		// locals of the callee are not visible
		for k := range ms.Vars {
			if strings.HasPrefix(k, "L.") {
				delete(ms.Vars, k)
			}
		}
		return ms
	}
	// external / interface method without modifies: assumed to change nothing but may allocate
	if !fc.NoAlloc {
		ms.Alloc = true
	}
	return ms
}

// designator parses entries of a modifies clause.
func (e *Engine) designator(d, pkgPath string, ms *ModSet) {
	d = strings.TrimSpace(d)
	switch {
	case d == "alloc":
		ms.Alloc = true
	case strings.HasPrefix(d, "ghost "):
		ms.Ghost[strings.TrimSpace(d[6:])] = true
	case strings.HasPrefix(d, "global "):
		name := strings.TrimSpace(d[7:])
		if !strings.Contains(name, ".") && pkgPath != "" {
			name = pkgPath + "." + name
		} else {
			name = expandPkg(name)
		}
		ms.Vars["G."+e.shortName(name)] = true
	case strings.HasPrefix(d, "Mem[") && strings.HasSuffix(d, "]"):
		t := e.resolveTypeString(d[4:len(d)-1], pkgPath)
		if t != nil {
			ms.Vars["M."+typeKey(t)] = true
		}
	case strings.HasPrefix(d, "Box[") && strings.HasSuffix(d, "]"):
		t := e.resolveTypeString(d[4:len(d)-1], pkgPath)
		if t != nil {
			ms.Vars["H.box."+typeKey(t)] = true
		}
	case strings.HasPrefix(d, "Map[") && strings.HasSuffix(d, "]"):
		t := e.resolveTypeString(d[4:len(d)-1], pkgPath)
		if t != nil {
			ms.Vars["MD."+typeKey(t)] = true
			ms.Vars["MV."+typeKey(t)] = true
		}
	default:
		// Type.field
		k := strings.LastIndex(d, ".")
		if k < 0 {
			panic("bad modifies designator " + d)
		}
		t := e.resolveTypeString(d[:k], pkgPath)
		if t == nil {
			panic("bad modifies designator " + d)
		}
		if d[k+1:] == "*" {
			ms.Vars["H."+typeKey(t)+"."] = true
		} else {
			ms.Vars["H."+typeKey(t)+"."+d[k+1:]] = true
		}
	}
}

func (e *Engine) resolveTypeString(s, pkgPath string) types.Type {
	toks, err := lexSpec(s)
	if err != nil {
		return nil
	}
	sp := &sparser{toks: toks, src: s}
	te, err := sp.typeExpr()
	if err != nil {
		return nil
	}
	sc := &Scope{vc: &VC{e: e}}
	if p := e.Pkgs[pkgPath]; p != nil {
		sc.pkg = p.Types
	} else {
		sc.pkg = types.NewPackage("ext", "ext")
	}
	var t types.Type
	func() {
		defer func() { recover() }()
		t = sc.resolveType(te)
	}()
	return t
}

func (e *Engine) addrPrefix(addr ssa.Value, fr *Frame) []string {
	switch a := addr.(type) {
	case *ssa.Alloc:
		et := a.Type().(*types.Pointer).Elem()
		if isStruct(et) {
			if !a.Heap {
				if fr != nil {
					return []string{"L." + fr.id + "." + a.Name()}
				}
				return nil
			}
			return []string{"H." + typeKey(et)}
		}
		if _, ok := et.Underlying().(*types.Array); ok {
			return nil
		}
		if a.Heap {
			return []string{"H.box." + typeKey(et)}
		}
		if fr != nil {
			return []string{"L." + fr.id + "." + a.Name()}
		}
		return nil
	case *ssa.FieldAddr:
		pt := a.X.Type().Underlying().(*types.Pointer)
		f := pt.Elem().Underlying().(*types.Struct).Field(a.Field)
		switch ax := a.X.(type) {
		case *ssa.FieldAddr, *ssa.IndexAddr:
			var out []string
			for _, p := range e.addrPrefix(a.X, fr) {
				out = append(out, p+"."+f.Name())
			}
			return out
		case *ssa.Alloc:
			if !ax.Heap && isStruct(pt.Elem()) {
				if fr != nil {
					return []string{"L." + fr.id + "." + ax.Name() + "." + f.Name()}
				}
				return nil
			}
		}
		return []string{"H." + typeKey(pt.Elem()) + "." + f.Name()}
	case *ssa.IndexAddr:
		switch xt := a.X.Type().Underlying().(type) {
		case *types.Slice:
			return []string{"M." + typeKey(xt.Elem())}
		case *types.Pointer:
			at := xt.Elem().Underlying().(*types.Array)
			return []string{"M." + typeKey(at.Elem())}
		}
	case *ssa.Global:
		return []string{"G." + e.shortName(a.String())}
	}
	if pt, ok := addr.Type().Underlying().(*types.Pointer); ok {
		et := pt.Elem()
		if isStruct(et) {
			return []string{"H." + typeKey(et)}
		}
		return []string{"H.box." + typeKey(et)}
	}
	return nil
}

func (e *Engine) instrMods(in ssa.Instruction, ms *ModSet, fr *Frame, visiting map[*ssa.Function]bool) {
	switch in := in.(type) {
	case *ssa.Store:
		// element store into an array allocated by this very function (e.g. the argument array of a variadic call): a fresh object
		if ia, ok := in.Addr.(*ssa.IndexAddr); ok {
			if al, ok := ia.X.(*ssa.Alloc); ok {
				if pt, ok := al.Type().Underlying().(*types.Pointer); ok {
					if at, ok := pt.Elem().Underlying().(*types.Array); ok && fr == nil {
						ms.Alloc = true
						ms.Allocs["M."+typeKey(at.Elem())] = true
						break
					}
				}
			}
		}
		for _, p := range e.addrPrefix(in.Addr, fr) {
			ms.Vars[p] = true
		}
	case *ssa.Alloc:
		et := in.Type().(*types.Pointer).Elem()
		switch ut := et.Underlying().(type) {
		case *types.Struct:
			if !in.Heap {
				if fr != nil {
					ms.Vars["L."+fr.id+"."+in.Name()] = true
				}
				break
			}
			ms.Alloc = true
			ms.Allocs["H."+typeKey(et)] = true
		case *types.Array:
			ms.Alloc = true
			ms.Allocs["M."+typeKey(ut.Elem())] = true
		default:
			if in.Heap {
				ms.Alloc = true
				ms.Allocs["H.box."+typeKey(et)] = true
			} else if fr != nil {
				ms.Vars["L."+fr.id+"."+in.Name()] = true
			}
		}
	case *ssa.MakeSlice:
		ms.Alloc = true
		ms.Allocs["M."+typeKey(in.Type().Underlying().(*types.Slice).Elem())] = true
	case *ssa.MakeMap:
		ms.Alloc = true
		mt := in.Type().Underlying().(*types.Map)
		ms.Allocs["MD."+typeKey(mt)] = true
	case *ssa.MakeChan, *ssa.MakeClosure:
		ms.Alloc = true
	case *ssa.MapUpdate:
		mt := in.Map.Type().Underlying().(*types.Map)
		ms.Vars["MD."+typeKey(mt)] = true
		ms.Vars["MV."+typeKey(mt)] = true
	case *ssa.Call:
		e.callMods(in.Common(), ms, fr, visiting)
	case *ssa.Defer:
		e.callMods(in.Common(), ms, fr, visiting)
	case *ssa.Go:
		e.callMods(in.Common(), ms, fr, visiting)
	}
}

func (e *Engine) callMods(c *ssa.CallCommon, ms *ModSet, fr *Frame, visiting map[*ssa.Function]bool) {
	if b, ok := c.Value.(*ssa.Builtin); ok {
		switch b.Name() {
		case "append":
			if sl, ok := c.Args[0].Type().Underlying().(*types.Slice); ok {
				ms.Vars["M."+typeKey(sl.Elem())] = true
				ms.Alloc = true
			}
		case "copy":
			if sl, ok := c.Args[0].Type().Underlying().(*types.Slice); ok {
				ms.Vars["M."+typeKey(sl.Elem())] = true
			}
		case "delete":
			mt := c.Args[0].Type().Underlying().(*types.Map)
			ms.Vars["MD."+typeKey(mt)] = true
		}
		return
	}
	var key string
	var callee *ssa.Function
	if c.IsInvoke() {
		key = "(" + c.Value.Type().String() + ")." + c.Method.Name()
	} else if f := c.StaticCallee(); f != nil {
		key = f.String()
		callee = f
	} else if u, ok := c.Value.(*ssa.UnOp); ok {
		if g, ok := u.X.(*ssa.Global); ok {
			key = "var " + g.String()
		}
	}
	if fc := e.Contracts[key]; fc != nil && !fc.Inline {
		ms.union(e.contractMods(fc, callee, c))
		return
	}
	if callee != nil && len(callee.Blocks) > 0 {
		cm := e.funcMods(callee, visiting)
		for k := range cm.Vars {
			if !strings.HasPrefix(k, "L.") {
				ms.Vars[k] = true
			}
		}
		for k := range cm.Allocs {
			ms.Allocs[k] = true
		}
		for k := range cm.Ghost {
			ms.Ghost[k] = true
		}
		ms.Alloc = ms.Alloc || cm.Alloc
		return
	}
	// unknown callee: assume it may allocate
	ms.Alloc = true
}

// expandPrefix lists the concrete state variables for a prefix. Heap/memory
// variables are enumerated from type layouts; locals/globals from what has been seen.
func (e *Engine) expandPrefix(p string, vc *VC) []string {
	var out []string
	seen := map[string]bool{}
	add := func(n string) {
		if !seen[n] {
			seen[n] = true
			out = append(out, n)
		}
	}
	for k := range vc.sorts {
		if strings.HasPrefix(k, "sort:") {
			n := k[5:]
			if n == p || strings.HasPrefix(n, p+".") || strings.HasPrefix(n, p+"#") {
				add(n)
			}
		}
	}
	// types known by key
	if strings.HasPrefix(p, "H.") || strings.HasPrefix(p, "M.") {
		for _, t := range e.knownTypes() {
			tk := typeKey(t)
			var root string
			if strings.HasPrefix(p, "H.") {
				root = "H." + tk
				if !isStruct(t) {
					continue
				}
			} else {
				root = "M." + tk
			}
			if !(p == root || strings.HasPrefix(p, root+".") || strings.HasPrefix(p, root+"#")) {
				continue
			}
			for _, l := range e.layout(t) {
				n := root + l.Path
				if n == p || strings.HasPrefix(n, p+".") || strings.HasPrefix(n, p+"#") || p == root {
					if strings.HasPrefix(p, "H.") {
						vc.noteSort(n, ArrSort("Int", l.Sort))
					} else {
						vc.noteSort(n, ArrSort("Int", ArrSort("Int", l.Sort)))
					}
					add(n)
				}
			}
		}
	}
	sort.Strings(out)
	return out
}

var knownTypesCache []types.Type

// knownTypes: every named struct type of the repo packages plus element types seen in slices.
func (e *Engine) knownTypes() []types.Type {
	if knownTypesCache != nil {
		return knownTypesCache
	}
	seen := map[string]bool{}
	var out []types.Type
	var add func(t types.Type)
	add = func(t types.Type) {
		k := t.String()
		if seen[k] {
			return
		}
		seen[k] = true
		out = append(out, t)
		switch u := t.Underlying().(type) {
		case *types.Struct:
			for i := 0; i < u.NumFields(); i++ {
				add(u.Field(i).Type())
			}
		case *types.Slice:
			add(u.Elem())
		case *types.Pointer:
			add(u.Elem())
		case *types.Array:
			add(u.Elem())
		case *types.Map:
			add(u.Key())
			add(u.Elem())
		}
	}
	for _, path := range e.RepoPkgs {
		p := e.Pkgs[path]
		sc := p.Types.Scope()
		for _, n := range sc.Names() {
			if tn, ok := sc.Lookup(n).(*types.TypeName); ok {
				add(tn.Type())
			}
		}
	}
	for _, bt := range []types.Type{tInt, tFloat64, tBool, tString, types.Typ[types.Int64], types.Typ[types.Int32]} {
		add(bt)
	}
	knownTypesCache = out
	return out
}

func assumesPre(fc *FuncContract, short string) bool {
	for _, a := range fc.AssumePre {
		if a == short || a == shortFn(short) {
			return true
		}
	}
	return false
}

// sourceOrdinal: the position of a call among the calls of the same simple name in the enclosing function, in SOURCE order
// (1-based). Ghost statements, asserts and cuts are anchored with it (`@ after 2 duplicate` = the second duplicate call in the text).
func (fr *Frame) sourceOrdinal(c *ssa.CallCommon, pos token.Pos) int {
	name := callSimpleName(c)
	if name == "" {
		return 0
	}
	n := 1
	for _, b := range fr.fn.Blocks {
		for _, in := range b.Instrs {
			ci, ok := in.(ssa.CallInstruction)
			if !ok {
				continue
			}
			cc := ci.Common()
			if cc == c || callSimpleName(cc) != name {
				continue
			}
			p := in.Pos()
			if !p.IsValid() {
				p = cc.Pos()
			}
			if p.IsValid() && p < pos {
				n++
			}
		}
	}
	return n
}

func callSimpleName(c *ssa.CallCommon) string {
	if c.IsInvoke() {
		return c.Method.Name()
	}
	if f := c.StaticCallee(); f != nil {
		return f.Name()
	}
	if b, ok := c.Value.(*ssa.Builtin); ok {
		return b.Name()
	}
	return ""
}
