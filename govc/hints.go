package main

// Proof hints. A hint names, for one obligation, the quantified assumptions a solver actually used in an earlier
// proof (its unsat core). A later run first tries the obligation with only those quantified assumptions (all
// quantifier-free context is kept). Dropping assumptions is sound, so a stale or wrong hint can only make the
// hinted attempt fail, after which the obligation goes through the normal stages with its full context.
// Hints are identified by a hash of the assertion text with the SSA/version counters removed, so they survive
// renumbering; they are produced by `govc verify -cores KEY` and stored under /verif/hints.

import (
	"crypto/sha1"
	"encoding/hex"
	"encoding/json"
	"fmt"
	"os"
	"path/filepath"
	"regexp"
	"sort"
	"strings"
	"sync"
)

var (
	hints    = map[string]map[string]bool{}
	hintsMu  sync.Mutex
	counterR = regexp.MustCompile(`![0-9]+`)
)

func normHash(cmd string) string {
	h := sha1.Sum([]byte(counterR.ReplaceAllString(cmd, "!")))
	return hex.EncodeToString(h[:8])
}

func loadHints(dir string) {
	files, _ := filepath.Glob(filepath.Join(dir, "*.json"))
	for _, f := range files {
		b, err := os.ReadFile(f)
		if err != nil {
			continue
		}
		m := map[string][]string{}
		if json.Unmarshal(b, &m) != nil {
			continue
		}
		for k, v := range m {
			s := map[string]bool{}
			for _, h := range v {
				s[h] = true
			}
			hints[k] = s
		}
	}
}

func saveHints(dir, fn string, m map[string][]string) error {
	os.MkdirAll(dir, 0o755)
	path := filepath.Join(dir, smtName(fn)+".json")
	old := map[string][]string{}
	if b, err := os.ReadFile(path); err == nil {
		json.Unmarshal(b, &old)
	}
	for k, v := range m {
		sort.Strings(v)
		old[k] = v
	}
	b, _ := json.MarshalIndent(old, "", " ")
	return os.WriteFile(path, b, 0o644)
}

func hintFor(name string) map[string]bool {
	hintsMu.Lock()
	defer hintsMu.Unlock()
	return hints[name]
}

// hintedScript: the obligation with only the hinted quantified assumptions.
func (vc *VC) hintedScript(o *Obl, keep map[string]bool) string {
	var sb strings.Builder
	sb.WriteString("; obligation " + o.Name + " (core-hinted context)\n(set-logic ALL)\n")
	sb.WriteString(vc.preambleFor(vc.usesMS(o.CtxLen, o.Goal)))
	for i, c := range vc.cmds[:o.CtxLen] {
		if vc.hidden(o, i, c) {
			continue
		}
		if strings.Contains(c, "(forall ") && !keep[normHash(c)] {
			continue
		}
		sb.WriteString(c)
		sb.WriteByte('\n')
	}
	if o.part {
		sb.WriteString("(declare-fun keep!terms (Bool) Bool)\n(assert (keep!terms true))\n(assert (keep!terms false))\n")
	}
	sb.WriteString("(assert (not " + o.Goal.String() + "))\n(check-sat)\n")
	return sb.String()
}

// coreScript: every quantified assumption is named, the solver is asked for an unsat core.
func (vc *VC) coreScript(o *Obl) (string, map[string]string) {
	names := map[string]string{}
	var sb strings.Builder
	sb.WriteString("(set-option :produce-unsat-cores true)\n(set-logic ALL)\n")
	sb.WriteString(vc.preambleFor(vc.usesMS(o.CtxLen, o.Goal)))
	for i, c := range vc.cmds[:o.CtxLen] {
		if vc.hidden(o, i, c) {
			continue
		}
		if strings.Contains(c, "(forall ") && strings.HasPrefix(c, "(assert ") {
			body := strings.TrimSpace(strings.TrimSuffix(strings.TrimSpace(c), ";E"))
			body = body[len("(assert ") : len(body)-1]
			n := fmt.Sprintf("q%d", i)
			names[n] = normHash(c)
			sb.WriteString("(assert (! " + body + " :named " + n + "))\n")
			continue
		}
		sb.WriteString(c)
		sb.WriteByte('\n')
	}
	if o.part {
		sb.WriteString("(declare-fun keep!terms (Bool) Bool)\n(assert (keep!terms true))\n(assert (keep!terms false))\n")
	}
	sb.WriteString("(assert (not " + o.Goal.String() + "))\n(check-sat)\n(get-unsat-core)\n")
	return sb.String(), names
}

// extractCore asks z3 for the quantified assumptions used by a proof of o; nil when no proof was found in time.
func (vc *VC) extractCore(o *Obl, dir string, sec int) []string {
	script, names := vc.coreScript(o)
	file := filepath.Join(dir, smtName(o.Name)+".core.smt2")
	if os.WriteFile(file, []byte(script), 0o644) != nil {
		return nil
	}
	r := runSolver(solvers[0], file, sec)
	if r.status != "unsat" {
		return nil
	}
	lines := strings.SplitN(r.output, "\n", 2)
	if len(lines) < 2 {
		return nil
	}
	if !strings.HasPrefix(strings.TrimSpace(lines[1]), "(") || strings.HasPrefix(strings.TrimSpace(lines[1]), "(error") {
		return nil
	}
	core := strings.Fields(strings.NewReplacer("(", " ", ")", " ").Replace(lines[1]))
	seen := map[string]bool{}
	out := []string{}
	for _, n := range core {
		if h, ok := names[n]; ok && !seen[h] {
			seen[h] = true
			out = append(out, h)
		}
	}
	return out
}
