package main

import (
	"fmt"
	"go/token"
	"go/types"
	"sort"
	"strings"

	"golang.org/x/tools/go/ssa"
)

type FuncResult struct {
	Key         string
	Short       string
	VC          *VC
	Obls        []*Obl
	Errors      []string
	Unsupported []string
	Vacuity     []*Obl // must be sat
	Props       []string
	File        string
}

func (e *Engine) setFloatMode(fc *FuncContract) {
	e.ufArith = fc != nil && fc.UFArith
	old := e.FloatSort
	if fc != nil && fc.Mode == "fp" {
		e.FloatSort = fpSortName()
	} else {
		e.FloatSort = "Real"
	}
	if old != e.FloatSort {
		e.layouts = map[string][]Leaf{}
	}
}

// Verify generates all obligations for one function under contract.
func (e *Engine) Verify(key string) (res *FuncResult) {
	fc := e.Contracts[key]
	fn := e.lookupFunc(key)
	res = &FuncResult{Key: key, Short: e.shortName(key)}
	if fc != nil {
		res.Props = fc.Props
	}
	if fc != nil && fc.IsLemma {
		return e.verifyLemma(res, fc)
	}
	if fn == nil {
		res.Errors = append(res.Errors, "function not found in the current source: "+key)
		return
	}
	if len(fn.Blocks) == 0 {
		res.Errors = append(res.Errors, "function has no body: "+key)
		return
	}
	e.setFloatMode(fc)
	vc := e.newVC(fn, fc)
	if strings.HasPrefix(key, "var ") {
		// obligations of a function bound to a package-level variable are named after the variable
		vc.short = strings.TrimPrefix(e.shortName(key), "var ")
		if n := e.VarStores[baseKey(key)]; n > 0 {
			vc.Errors = append(vc.Errors, fmt.Sprintf("%s is assigned outside the package initialiser (%d stores): its contract cannot stand for one function", key, n))
		}
	} else if strings.Contains(key, "@") {
		vc.short = e.shortName(key)
	}
	res.Short = vc.short
	res.VC = vc
	vc.preambleFor(false)
	defer func() {
		if r := recover(); r != nil {
			if se, ok := r.(specErr); ok {
				res.Errors = append(res.Errors, string(se))
			} else {
				res.Errors = append(res.Errors, fmt.Sprintf("engine panic: %v", r))
				if debugPanic {
					panic(r)
				}
			}
		}
		res.Obls = vc.Obls
		res.Errors = append(res.Errors, vc.Errors...)
		res.Unsupported = vc.Unsupported
	}()
	fr := vc.newFrame(fn, 0)
	fr.top = true
	fr.fc = fc
	fr.edgeReach = map[[2]int]*Term{}
	entry := newState()
	fr.entry = entry
	reach := TTrue
	// parameters
	bind := func(name string, t types.Type, v ssa.Value) {
		val := vc.freshVal("p."+name, t)
		fr.env[v] = val
		fr.params[name] = val
		fr.pnames = append(fr.pnames, name)
		fr.assumeWellFormed(val, entry, reach)
	}
	for _, p := range fn.Params {
		bind(p.Name(), p.Type(), p)
	}
	for _, fv := range fn.FreeVars {
		bind(fv.Name(), fv.Type(), fv)
	}
	// global axioms
	vc.emitAxioms(fr)
	st := entry.clone()
	if fc != nil {
		for _, gs := range fc.Ghost {
			if gs.When == "entry" && gs.Assert == nil {
				fr.ghostAssign(gs, st)
			}
		}
		fr.entry = st.clone()
		vc.reqStart = len(vc.cmds)
		for i, rq := range fc.Requires {
			sc := fr.baseScope(st)
			t, err := sc.compileBool(rq.Expr)
			if err != nil {
				vc.Errors = append(vc.Errors, fmt.Sprintf("requires %d: %v", i+1, err))
				continue
			}
			vc.assume(reach, t)
		}
	}
	vc.entryLen = len(vc.cmds)
	vc.root = fr
	if fc != nil && fc.HasOwnW {
		e.ownWritesScan(vc, fn, fc)
	}
	rets := fr.run(reach, st)
	for ri, r := range rets {
		vc.curBlock = r.block
		vc.exits = append(vc.exits, r.reach)
		if fc == nil {
			continue
		}
		for i, en := range fc.Ensures {
			if en.Free {
				continue
			}
			sc := fr.baseScope(r.st)
			if en.Local {
				sc.pos = r.pos
			}
			fr.bindResults(sc, r.vals)
			t, err := sc.compileBool(en.Expr)
			if err != nil {
				if ri == 0 {
					vc.Errors = append(vc.Errors, fmt.Sprintf("ensures %d: %v", i+1, err))
				}
				continue
			}
			vc.oblige("post", clauseLabel(en, i), r.reach, t, fn.Pos(), en.Src, en.Props, "")
		}
		if fc.HasMod {
			fr.frameObligations(r, fc)
		}
	}
	return
}

var debugPanic = false

func (fr *Frame) bindResults(sc *Scope, vals []Val) {
	if len(vals) == 1 {
		sc.vars["result"] = vals[0]
	}
	for i, v := range vals {
		sc.vars[fmt.Sprintf("result%d", i)] = v
	}
	rs := fr.fn.Signature.Results()
	for i := 0; i < rs.Len() && i < len(vals); i++ {
		if n := rs.At(i).Name(); n != "" && n != "_" {
			if _, clash := sc.vars[n]; !clash {
				sc.vars[n] = vals[i]
			}
		}
	}
}

func (vc *VC) emitAxioms(fr *Frame) {
	e := vc.e
	for _, ax := range e.Axioms {
		if !vc.usesAxiom(ax.Name) {
			continue
		}
		if ax.Raw != "" {
			vc.cmds = append(vc.cmds, "(assert "+e.floatSorts(ax.Raw)+") ; axiom "+ax.Name)
			continue
		}
		nq := 0
		sc := &Scope{vc: vc, vars: map[string]Val{}, cur: fr.entry, old: fr.entry, nq: &nq}
		if p := e.Pkgs[ax.Pkg]; p != nil {
			sc.pkg = p.Types
		} else {
			sc.pkg = fr.fn.Pkg.Pkg
		}
		t, err := sc.compileBool(ax.Expr)
		if err != nil {
			vc.Errors = append(vc.Errors, fmt.Sprintf("axiom %s: %v", ax.Name, err))
			continue
		}
		vc.cmds = append(vc.cmds, "(assert "+t.String()+") ; axiom "+ax.Name)
	}
}

// frameObligations: with an explicit modifies clause, everything else the body
// (or its callees' contracts) touched must be unchanged on pre-existing objects.
func (fr *Frame) frameObligations(r retInfo, fc *FuncContract) {
	vc := fr.vc
	e := vc.e
	allowed := newModSet()
	for _, d := range fc.Modifies {
		e.designator(d, fc.Pkg, allowed)
	}
	covered := func(n string) bool {
		for p := range allowed.Vars {
			if n == p || strings.HasPrefix(n, p+".") || strings.HasPrefix(n, p+"#") {
				return true
			}
		}
		return false
	}
	names := make([]string, 0, len(r.st.m))
	for n := range r.st.m {
		names = append(names, n)
	}
	sort.Strings(names)
	a0 := vc.allocArr(fr.entry)
	for _, n := range names {
		if strings.HasPrefix(n, "L.") || n == allocVar || n == "arrlen" {
			continue
		}
		if strings.HasPrefix(n, "ghost.") {
			if allowed.Ghost[n[6:]] {
				continue
			}
		} else if covered(n) {
			continue
		}
		cur := r.st.m[n]
		srt := vc.varSort(n)
		init := vc.sv(fr.entry, n, srt)
		if cur.String() == init.String() {
			continue
		}
		var goal *Term
		if strings.HasPrefix(n, "G.") || strings.HasPrefix(n, "ghost.") {
			goal = Eq(cur, init)
		} else {
			goal = Forall([][2]string{{"r$f", "Int"}}, Imp(Sel(a0, A("r$f")), Eq(Sel(cur, A("r$f")), Sel(init, A("r$f")))))
		}
		vc.oblige("frame", n, r.reach, goal, fr.fn.Pos(), "not in modifies: "+n+" must be unchanged on pre-existing objects", nil, "")
	}
}

// expandPrefixExtras handles box/map/global prefixes (see calls.go expandPrefix).
func (e *Engine) globalsWithPrefix(p string) []string {
	var out []string
	for _, path := range e.RepoPkgs {
		pk := e.Pkgs[path]
		sc := pk.Types.Scope()
		for _, n := range sc.Names() {
			if v, ok := sc.Lookup(n).(*types.Var); ok {
				root := "G." + e.shortName(path+"."+v.Name())
				if root == p || strings.HasPrefix(root, p) {
					for _, l := range e.layout(v.Type()) {
						out = append(out, root+l.Path+"\x00"+l.Sort)
					}
				}
			}
		}
	}
	return out
}

func (vc *VC) usesAxiom(name string) bool {
	if vc.fc == nil {
		return false
	}
	for _, u := range vc.fc.Uses {
		if u == name || u == "*" {
			return true
		}
	}
	return false
}

// floatSorts replaces the sort placeholder Float in raw SMT text.
func (e *Engine) floatSorts(s string) string {
	if e.FloatSort == "Real" {
		return strings.ReplaceAll(s, "Float", "Real")
	}
	return strings.ReplaceAll(s, "Float", e.FloatSort)
}

// verifyLemma: the ensures clauses of a lemma are obligations over the used axioms only.
func (e *Engine) verifyLemma(res *FuncResult, fc *FuncContract) *FuncResult {
	e.setFloatMode(fc)
	vc := &VC{e: e, fc: fc, short: fc.Key, sorts: map[string]string{}, oblNames: map[string]int{},
		usedTrusted: map[string]bool{}, inlined: map[string]bool{}, callCount: map[string]int{}}
	vc.short = strings.ReplaceAll(fc.Key, " ", ".")
	res.VC = vc
	vc.preambleFor(false)
	res.Short = vc.short
	entry := newState()
	pkg := types.NewPackage("ext", "ext")
	if p := e.Pkgs[fc.Pkg]; p != nil {
		pkg = p.Types
	}
	mk := func() *Scope {
		nq := 0
		return &Scope{vc: vc, vars: map[string]Val{}, cur: entry, old: entry, pkg: pkg, nq: &nq}
	}
	for _, ax := range e.Axioms {
		if !vc.usesAxiom(ax.Name) {
			continue
		}
		if ax.Raw != "" {
			vc.cmds = append(vc.cmds, "(assert "+e.floatSorts(ax.Raw)+") ; axiom "+ax.Name)
			continue
		}
		t, err := mk().compileBool(ax.Expr)
		if err != nil {
			vc.Errors = append(vc.Errors, fmt.Sprintf("axiom %s: %v", ax.Name, err))
			continue
		}
		vc.cmds = append(vc.cmds, "(assert "+t.String()+") ; axiom "+ax.Name)
	}
	for i, rq := range fc.Requires {
		t, err := mk().compileBool(rq.Expr)
		if err != nil {
			vc.Errors = append(vc.Errors, fmt.Sprintf("requires %d: %v", i+1, err))
			continue
		}
		vc.assume(TTrue, t)
	}
	vc.exits = append(vc.exits, TTrue)
	if fc.RawClaim != "" {
		claim := e.floatSorts(fc.RawClaim)
		vars := e.floatSorts(fc.RawVars)
		sub := func(with string) string { return replaceToken(claim, fc.Induct, with) }
		all := func(body string) string {
			if strings.TrimSpace(vars) == "" {
				return body
			}
			return "(forall (" + vars + ") " + body + ")"
		}
		if fc.Induct == "" {
			vc.oblige("lemma", "claim", TTrue, A(all(claim)), 0, fc.RawClaim, nil, "")
		} else {
			base := sub("0")
			vc.oblige("lemma", "base", TTrue, A(all(base)), 0, "base case "+fc.Induct+" = 0: "+fc.RawClaim, nil, "")
			vc.cmds = append(vc.cmds, "(declare-const "+fc.Induct+" Int)", "(assert (>= "+fc.Induct+" 0))")
			ih := claim
			if fc.RawPat != "" && strings.TrimSpace(vars) != "" {
				vc.cmds = append(vc.cmds, "(assert (forall ("+vars+") (! "+ih+" :pattern ("+e.floatSorts(fc.RawPat)+")))) ; induction hypothesis")
			} else {
				vc.cmds = append(vc.cmds, "(assert "+all(ih)+") ; induction hypothesis")
			}
			succ := "(+ " + fc.Induct + " 1)"
			step := sub(succ)
			vc.oblige("lemma", "step", TTrue, A(all(step)), 0, "induction step "+fc.Induct+" -> "+fc.Induct+"+1: "+fc.RawClaim, nil, "")
		}
	}
	for i, en := range fc.Ensures {
		t, err := mk().compileBool(en.Expr)
		if err != nil {
			vc.Errors = append(vc.Errors, fmt.Sprintf("ensures %d: %v", i+1, err))
			continue
		}
		vc.oblige("lemma", clauseLabel(en, i), TTrue, t, 0, en.Src, en.Props, "")
	}
	res.Obls = vc.Obls
	res.Errors = vc.Errors
	return res
}

// replaceToken replaces every whole token `name` in SMT text.
func replaceToken(s, name, with string) string {
	var sb strings.Builder
	i := 0
	for i < len(s) {
		c := s[i]
		if c == ' ' || c == '(' || c == ')' || c == '\t' || c == '\n' {
			sb.WriteByte(c)
			i++
			continue
		}
		j := i
		for j < len(s) && s[j] != ' ' && s[j] != '(' && s[j] != ')' && s[j] != '\t' && s[j] != '\n' {
			j++
		}
		if s[i:j] == name {
			sb.WriteString(with)
		} else {
			sb.WriteString(s[i:j])
		}
		i = j
	}
	return sb.String()
}

// ownWritesScan: `own_writes` is an effect clause about the instructions of the function itself (its callees are
// covered by their own contracts): every store, map update, append and copy in the body must fall into one of the
// listed families; stores into the function's local variables are always allowed. One obligation per offending
// instruction, decided syntactically on the SSA.
func (e *Engine) ownWritesScan(vc *VC, fn *ssa.Function, fc *FuncContract) {
	allowed := newModSet()
	for _, d := range fc.OwnWrites {
		e.designator(d, fc.Pkg, allowed)
	}
	ok := func(p string) bool {
		for a := range allowed.Vars {
			if strings.HasPrefix(p, a) {
				return true
			}
		}
		return false
	}
	n := 0
	report := func(pos token.Pos, what string) {
		o := vc.oblige("effect.ownWrites", "", TTrue, TFalse, pos, "own_writes "+strings.Join(fc.OwnWrites, ", ")+" -- offending: "+what, fc.Props, "")
		o.Status, o.Solver, o.Model = "sat", "syntactic scan of the SSA", "the function body writes "+what
		n++
	}
	for _, b := range fn.Blocks {
		for _, in := range b.Instrs {
			switch in := in.(type) {
			case *ssa.Store:
				if a := allocRoot(in.Addr); a != nil && !a.Heap {
					continue
				}
				if ia, isIdx := in.Addr.(*ssa.IndexAddr); isIdx {
					if _, isAlloc := ia.X.(*ssa.Alloc); isAlloc {
						continue // argument array of a variadic call
					}
				}
				for _, p := range e.addrPrefix(in.Addr, nil) {
					if !ok(p) {
						report(in.Pos(), p)
					}
				}
			case *ssa.MapUpdate:
				mt := in.Map.Type().Underlying().(*types.Map)
				if p := "MD." + typeKey(mt); !ok(p) {
					report(in.Pos(), p)
				}
			case *ssa.Call:
				if bi, isB := in.Call.Value.(*ssa.Builtin); isB && (bi.Name() == "append" || bi.Name() == "copy" || bi.Name() == "delete") {
					switch t := in.Call.Args[0].Type().Underlying().(type) {
					case *types.Slice:
						if p := "M." + typeKey(t.Elem()); !ok(p) {
							report(in.Pos(), p)
						}
					case *types.Map:
						if p := "MD." + typeKey(t); !ok(p) {
							report(in.Pos(), p)
						}
					}
				}
			}
		}
	}
	if n == 0 {
		o := vc.oblige("effect.ownWrites", "", TTrue, TFalse, fn.Pos(), "own_writes "+strings.Join(fc.OwnWrites, ", "), fc.Props, "")
		o.Status, o.Solver = "unsat", "syntactic scan of the SSA"
	}
}
