package main

// Minimal SMT-LIB term layer. Terms are immutable trees with a cached string;
// integer sums are kept in a light normal form (constants folded, equal atoms
// cancelled) so that index arithmetic like off + (p - off - c) + c prints as p
// and quantifier triggers stay free of arithmetic.

import (
	"fmt"
	"math/big"
	"sort"
	"strings"
)

type Term struct {
	Op    string // "" => atom
	Atom  string
	Args  []*Term
	str   string
	QVars [][2]string // bound variables of a quantifier term
}

func (t *Term) String() string {
	if t == nil {
		return "<nil>"
	}
	if t.str != "" {
		return t.str
	}
	if t.Op == "" {
		t.str = t.Atom
		return t.str
	}
	var sb strings.Builder
	sb.WriteByte('(')
	sb.WriteString(t.Op)
	for _, a := range t.Args {
		sb.WriteByte(' ')
		sb.WriteString(a.String())
	}
	sb.WriteByte(')')
	t.str = sb.String()
	return t.str
}

func A(name string) *Term { return &Term{Atom: name} }
func App(op string, args ...*Term) *Term {
	return &Term{Op: op, Args: args}
}

var (
	TTrue  = A("true")
	TFalse = A("false")
	Zero   = A("0")
	One    = A("1")
)

func NumI(n int64) *Term {
	if n < 0 {
		return App("-", A(fmt.Sprint(-n)))
	}
	return A(fmt.Sprint(n))
}

func NumBig(n *big.Int) *Term {
	if n.Sign() < 0 {
		return App("-", A(new(big.Int).Neg(n).String()))
	}
	return A(n.String())
}

func isNumAtom(t *Term) (int64, bool) {
	if t.Op == "" {
		if len(t.Atom) > 0 && t.Atom[0] >= '0' && t.Atom[0] <= '9' && !strings.ContainsAny(t.Atom, ".e") {
			var n int64
			if _, err := fmt.Sscan(t.Atom, &n); err == nil && fmt.Sprint(n) == t.Atom {
				return n, true
			}
		}
		return 0, false
	}
	if t.Op == "-" && len(t.Args) == 1 {
		if n, ok := isNumAtom(t.Args[0]); ok {
			return -n, true
		}
	}
	return 0, false
}

// linear normal form for Int terms
type lin struct {
	c     int64
	coef  map[string]int64
	terms map[string]*Term
}

func linOf(t *Term) *lin {
	l := &lin{coef: map[string]int64{}, terms: map[string]*Term{}}
	l.add(t, 1)
	return l
}

func (l *lin) add(t *Term, k int64) {
	if n, ok := isNumAtom(t); ok {
		l.c += k * n
		return
	}
	switch {
	case t.Op == "+":
		for _, a := range t.Args {
			l.add(a, k)
		}
		return
	case t.Op == "-" && len(t.Args) == 1:
		l.add(t.Args[0], -k)
		return
	case t.Op == "-" && len(t.Args) >= 2:
		l.add(t.Args[0], k)
		for _, a := range t.Args[1:] {
			l.add(a, -k)
		}
		return
	case t.Op == "*" && len(t.Args) == 2:
		if n, ok := isNumAtom(t.Args[0]); ok {
			l.add(t.Args[1], k*n)
			return
		}
		if n, ok := isNumAtom(t.Args[1]); ok {
			l.add(t.Args[0], k*n)
			return
		}
	}
	s := t.String()
	l.coef[s] += k
	l.terms[s] = t
}

func (l *lin) term() *Term {
	keys := make([]string, 0, len(l.coef))
	for k, v := range l.coef {
		if v != 0 {
			keys = append(keys, k)
		}
	}
	sort.Strings(keys)
	var pos, neg []*Term
	for _, k := range keys {
		v := l.coef[k]
		t := l.terms[k]
		av := v
		if av < 0 {
			av = -av
		}
		var tt *Term
		if av == 1 {
			tt = t
		} else {
			tt = App("*", NumI(av), t)
		}
		if v > 0 {
			pos = append(pos, tt)
		} else {
			neg = append(neg, tt)
		}
	}
	if l.c > 0 {
		pos = append(pos, NumI(l.c))
	} else if l.c < 0 {
		neg = append(neg, NumI(-l.c))
	}
	if len(pos) == 0 && len(neg) == 0 {
		return Zero
	}
	var p *Term
	switch len(pos) {
	case 0:
		p = nil
	case 1:
		p = pos[0]
	default:
		p = App("+", pos...)
	}
	if len(neg) == 0 {
		return p
	}
	if p == nil {
		if len(neg) == 1 {
			return App("-", neg[0])
		}
		return App("-", App("+", neg...))
	}
	return App("-", append([]*Term{p}, neg...)...)
}

func IAdd(a, b *Term) *Term { l := linOf(a); l.add(b, 1); return l.term() }
func ISub(a, b *Term) *Term { l := linOf(a); l.add(b, -1); return l.term() }
func INeg(a *Term) *Term {
	l := &lin{coef: map[string]int64{}, terms: map[string]*Term{}}
	l.add(a, -1)
	return l.term()
}

func And(ts ...*Term) *Term {
	var out []*Term
	for _, t := range ts {
		if t == nil || t.String() == "true" {
			continue
		}
		if t.String() == "false" {
			return TFalse
		}
		if t.Op == "and" {
			out = append(out, t.Args...)
		} else {
			out = append(out, t)
		}
	}
	switch len(out) {
	case 0:
		return TTrue
	case 1:
		return out[0]
	}
	return App("and", out...)
}

func Or(ts ...*Term) *Term {
	var out []*Term
	for _, t := range ts {
		if t == nil || t.String() == "false" {
			continue
		}
		if t.String() == "true" {
			return TTrue
		}
		if t.Op == "or" {
			out = append(out, t.Args...)
		} else {
			out = append(out, t)
		}
	}
	switch len(out) {
	case 0:
		return TFalse
	case 1:
		return out[0]
	}
	return App("or", out...)
}

func Not(t *Term) *Term {
	switch t.String() {
	case "true":
		return TFalse
	case "false":
		return TTrue
	}
	if t.Op == "not" {
		return t.Args[0]
	}
	return App("not", t)
}

func Imp(a, b *Term) *Term {
	if a.String() == "true" {
		return b
	}
	if a.String() == "false" || b.String() == "true" {
		return TTrue
	}
	return App("=>", a, b)
}

func Eq(a, b *Term) *Term {
	if a.String() == b.String() {
		return TTrue
	}
	return App("=", a, b)
}

func Ite(c, a, b *Term) *Term {
	switch c.String() {
	case "true":
		return a
	case "false":
		return b
	}
	if a.String() == b.String() {
		return a
	}
	return App("ite", c, a, b)
}

func Sel(arr, i *Term) *Term        { return App("select", arr, i) }
func Sto(arr, i, v *Term) *Term     { return App("store", arr, i, v) }
func Sel2(arr, i, j *Term) *Term    { return Sel(Sel(arr, i), j) }
func Sto2(arr, i, j, v *Term) *Term { return Sto(arr, i, Sto(Sel(arr, i), j, v)) }

func ArrSort(idx, el string) string { return "(Array " + idx + " " + el + ")" }

func Forall(vars [][2]string, body *Term, pats ...[]*Term) *Term {
	return quant("forall", vars, body, pats)
}
func Exists(vars [][2]string, body *Term, pats ...[]*Term) *Term {
	return quant("exists", vars, body, pats)
}

func quant(q string, vars [][2]string, body *Term, pats [][]*Term) *Term {
	if len(vars) == 0 {
		return body
	}
	var sb strings.Builder
	sb.WriteString("(" + q + " (")
	for _, v := range vars {
		sb.WriteString("(" + v[0] + " " + v[1] + ")")
	}
	sb.WriteString(") ")
	havePat := false
	for _, p := range pats {
		if len(p) > 0 {
			havePat = true
		}
	}
	if havePat {
		sb.WriteString("(! " + body.String())
		for _, p := range pats {
			if len(p) == 0 {
				continue
			}
			sb.WriteString(" :pattern (")
			for i, t := range p {
				if i > 0 {
					sb.WriteByte(' ')
				}
				sb.WriteString(t.String())
			}
			sb.WriteString(")")
		}
		sb.WriteString(")")
	} else {
		sb.WriteString(body.String())
	}
	sb.WriteString(")")
	return &Term{Op: q, Atom: "", Args: []*Term{body}, str: sb.String(), QVars: vars}
}

// subst replaces atoms by name.
func (t *Term) Subst(m map[string]*Term) *Term {
	if t.Op == "" {
		if r, ok := m[t.Atom]; ok {
			return r
		}
		return t
	}
	if t.Op == "forall" || t.Op == "exists" {
		// quantifier strings are opaque; substitution inside is not supported
		// (bound spec vars are compiled directly to their final names)
		return t
	}
	changed := false
	args := make([]*Term, len(t.Args))
	for i, a := range t.Args {
		args[i] = a.Subst(m)
		if args[i] != a {
			changed = true
		}
	}
	if !changed {
		return t
	}
	return App(t.Op, args...)
}

func smtName(s string) string {
	var sb strings.Builder
	for _, r := range s {
		switch {
		case r >= 'a' && r <= 'z', r >= 'A' && r <= 'Z', r >= '0' && r <= '9', r == '_', r == '.', r == '$', r == '@', r == '!':
			sb.WriteRune(r)
		case r == '#':
			sb.WriteByte('$')
		case r == '*':
			sb.WriteString("P.")
		case r == '[':
			sb.WriteString("S.")
		case r == ']':
		case r == '/':
			sb.WriteByte('.')
		default:
			sb.WriteByte('_')
		}
	}
	return sb.String()
}

// splitGoal decomposes a goal into conjuncts that are jointly equivalent to it:
// (and a b) -> a, b;  (=> g (and a b)) -> (=> g a), (=> g b);  (forall x (and a b)) -> (forall x a), (forall x b).
// Under a quantifier every part keeps its sibling conjuncts as arguments of the always-true predicate keep!terms
// (declared with the split obligations), so that the terms the solver needs for instantiating the assumptions at the
// skolem constants do not disappear with the siblings.
func splitGoal(t *Term) []*Term { return splitGoalQ(t, false) }

func splitGoalQ(t *Term, underQ bool) []*Term {
	switch {
	case t.Op == "and":
		var out []*Term
		for i, a := range t.Args {
			for _, p := range splitGoalQ(a, underQ) {
				if underQ {
					alts := []*Term{p}
					for j, sib := range t.Args {
						if j != i {
							alts = append(alts, App("not", App("keep!terms", sib)))
						}
					}
					p = App("or", alts...)
				}
				out = append(out, p)
			}
		}
		return out
	case t.Op == "=>" && len(t.Args) == 2:
		parts := splitGoalQ(t.Args[1], underQ)
		if len(parts) == 1 {
			return []*Term{t}
		}
		var out []*Term
		for _, p := range parts {
			out = append(out, App("=>", t.Args[0], p))
		}
		return out
	case t.Op == "forall" && len(t.QVars) > 0 && len(t.Args) == 1:
		parts := splitGoalQ(t.Args[0], true)
		if len(parts) == 1 {
			return []*Term{t}
		}
		var out []*Term
		for _, p := range parts {
			out = append(out, Forall(t.QVars, p))
		}
		return out
	}
	return []*Term{t}
}
