package main

// Compilation of contract expressions to SMT terms over a symbolic state.

import (
	"fmt"
	"go/ast"
	"go/constant"
	"go/token"
	"go/types"
	"strings"

	"golang.org/x/tools/go/ssa"
)

type Scope struct {
	vc    *VC
	fr    *Frame // frame whose locals are visible (may be nil)
	vars  map[string]Val
	cur   *State
	old   *State
	pkg   *types.Package
	loop  *Loop
	pos   token.Pos // source position the expression is evaluated at (ensures_local: the return statement), for resolving same-named locals
	depth int
	nq    *int
	inOld bool
}

func (sc *Scope) child() *Scope {
	n := *sc
	n.vars = make(map[string]Val, len(sc.vars)+4)
	for k, v := range sc.vars {
		n.vars[k] = v
	}
	return &n
}

func (fr *Frame) baseScope(cur *State) *Scope {
	nq := 0
	sc := &Scope{vc: fr.vc, fr: fr, vars: map[string]Val{}, cur: cur, old: fr.entry, pkg: fr.fn.Pkg.Pkg, nq: &nq}
	for k, v := range fr.params {
		sc.vars[k] = v
	}
	return sc
}

func (sc *Scope) compileBool(e *SExpr) (t *Term, err error) {
	defer func() {
		if r := recover(); r != nil {
			if se, ok := r.(specErr); ok {
				err = fmt.Errorf("%s", string(se))
				return
			}
			panic(r)
		}
	}()
	v := sc.compile(e)
	if len(v.Leaves) != 1 || !isBoolVal(v) {
		return nil, fmt.Errorf("expression %s is not boolean", e)
	}
	return v.T(), nil
}

func (sc *Scope) compileVal(e *SExpr) (v Val, err error) {
	defer func() {
		if r := recover(); r != nil {
			if se, ok := r.(specErr); ok {
				err = fmt.Errorf("%s", string(se))
				return
			}
			panic(r)
		}
	}()
	v = sc.compile(e)
	return
}

type specErr string

func sfail(format string, args ...interface{}) { panic(specErr(fmt.Sprintf(format, args...))) }

func isBoolVal(v Val) bool { return v.Typ != nil && isBool(v.Typ) }

func (sc *Scope) resolveType(te *TypeExpr) types.Type {
	if te == nil {
		return tInt
	}
	var base types.Type
	if te.Slice {
		base = types.NewSlice(sc.resolveType(te.Elem))
	} else {
		var scope *types.Scope
		if te.Pkg != "" {
			path, ok := pkgAliases[te.Pkg]
			if !ok {
				path = te.Pkg
			}
			p := sc.vc.e.Pkgs[path]
			if p == nil {
				sfail("unknown package %s in type %s", te.Pkg, te)
			}
			scope = p.Types.Scope()
		} else {
			scope = sc.pkg.Scope()
		}
		if te.Name == "real" {
			base = tFloat64
		} else {
			_, obj := scope.LookupParent(te.Name, token.NoPos)
			tn, ok := obj.(*types.TypeName)
			if !ok {
				sfail("unknown type %s", te)
			}
			base = tn.Type()
		}
	}
	for i := 0; i < te.Ptr; i++ {
		base = types.NewPointer(base)
	}
	return base
}

func (sc *Scope) e() *Engine { return sc.vc.e }

func (sc *Scope) state() *State {
	if sc.inOld {
		return sc.old
	}
	return sc.cur
}

func (sc *Scope) compile(x *SExpr) Val {
	vc := sc.vc
	e := vc.e
	switch x.Kind {
	case SNum:
		return intVal(A(x.Lit))
	case SFloat:
		return scalar(tFloat64, e.floatLit(x.Lit))
	case SBool:
		if x.Lit == "true" {
			return boolVal(TTrue)
		}
		return boolVal(TFalse)
	case SStr:
		return scalar(tString, NumI(int64(e.strID(x.Lit))))
	case SNil:
		return Val{Typ: types.Typ[types.UntypedNil], Leaves: []*Term{Zero}}
	case SIdent:
		return sc.ident(x.Name)
	case SOld:
		n := *sc
		n.inOld = true
		return n.compile(x.Args[0])
	case SUnary:
		a := sc.compile(x.Args[0])
		switch x.Op {
		case "!":
			return boolVal(Not(a.T()))
		case "-":
			if isFloat(a.Typ) {
				if e.FloatSort == "Real" {
					return scalar(a.Typ, App("-", a.T()))
				}
				return scalar(a.Typ, App("fp.neg", a.T()))
			}
			return scalar(a.Typ, INeg(a.T()))
		}
	case SBinary:
		return sc.binary(x)
	case SSel:
		// package-qualified name?
		if id := x.Args[0]; id.Kind == SIdent {
			if _, isVar := sc.vars[id.Name]; !isVar {
				if path, ok := pkgAliases[id.Name]; ok && sc.lookupLocal(id.Name) == nil {
					return sc.pkgMember(path, x.Name)
				}
			}
		}
		a := sc.compile(x.Args[0])
		return sc.selectField(a, x.Name)
	case SIndex:
		if x.Args[0].Kind == SMem {
			// Mem[T][b] : the backing array of base b (all leaves)
			t := sc.resolveType(x.Args[0].Type)
			b := sc.compile(x.Args[1]).T()
			out := Val{Typ: nil}
			for _, l := range e.layout(t) {
				n := "M." + typeKey(t) + l.Path
				srt := ArrSort("Int", ArrSort("Int", l.Sort))
				vc.noteSort(n, srt)
				out.Leaves = append(out.Leaves, Sel(vc.sv(sc.state(), n, srt), b))
			}
			return out
		}
		if x.Args[0].Kind == SIndex && x.Args[0].Args[0].Kind == SMem {
			t := sc.resolveType(x.Args[0].Args[0].Type)
			b := sc.compile(x.Args[0].Args[1]).T()
			p := sc.compile(x.Args[1]).T()
			lv := vc.elemLV(b, p, t)
			for _, l := range e.layout(t) {
				n, s := vc.leafVar(lv, l)
				vc.noteSort(n, s)
			}
			return vc.load(sc.state(), lv)
		}
		a := sc.compile(x.Args[0])
		return sc.index(a, x.Args[1], x)
	case SSlice:
		a := sc.compile(x.Args[0])
		if len(a.Leaves) != 4 {
			sfail("slicing a non-slice in %s", x)
		}
		lo := Zero
		if x.Args[1] != nil {
			lo = sc.compile(x.Args[1]).T()
		}
		hi := a.sLen()
		if x.Args[2] != nil {
			hi = sc.compile(x.Args[2]).T()
		}
		return Val{Typ: a.Typ, Leaves: []*Term{a.sBase(), IAdd(a.sOff(), lo), ISub(hi, lo), ISub(a.sCap(), lo)}}
	case SCall:
		return sc.call(x)
	case SQuant:
		return sc.quant(x)
	case SMem:
		sfail("Mem[T] must be indexed: Mem[T][base][pos]")
	}
	sfail("cannot compile %s", x)
	return Val{}
}

func (sc *Scope) ident(name string) Val {
	vc := sc.vc
	if v, ok := sc.vars[name]; ok {
		return v
	}
	if name == "#idx" {
		if sc.fr != nil && sc.loop != nil {
			if a := sc.fr.rangeIndexAlloc(sc.loop); a != nil {
				return sc.localValue(a)
			}
		}
		sfail("#idx used outside a range loop")
	}
	if strings.HasPrefix(name, "#idx") && sc.fr != nil {
		// #idxN: the hidden index of range loop N of this function (an enclosing loop, seen from an inner one)
		var n int
		if _, err := fmt.Sscanf(name[4:], "%d", &n); err == nil {
			for _, l := range analyzeLoops(sc.fr.fn).loops {
				if l.Ordinal == n {
					if a := sc.fr.rangeIndexAlloc(l); a != nil {
						return sc.localValue(a)
					}
				}
			}
		}
		sfail("%s: no such range loop", name)
	}
	if a := sc.lookupLocal(name); a != nil {
		return sc.localValue(a)
	}
	if gd, ok := vc.e.Ghosts[name]; ok {
		n := "ghost." + name
		vc.noteSort(n, gd.Sort)
		return Val{Typ: ghostType(gd.Sort), Leaves: []*Term{vc.sv(sc.state(), n, gd.Sort)}}
	}
	// package-level
	if obj := sc.pkg.Scope().Lookup(name); obj != nil {
		return sc.pkgObject(obj)
	}
	sfail("unknown identifier %s", name)
	return Val{}
}

func ghostType(sort string) types.Type {
	switch sort {
	case "Int":
		return tInt
	case "Bool":
		return tBool
	case "Real":
		return tFloat64
	}
	return nil
}

func (sc *Scope) pkgMember(path, name string) Val {
	p := sc.vc.e.Pkgs[path]
	if p == nil {
		sfail("package %s not loaded", path)
	}
	obj := p.Types.Scope().Lookup(name)
	if obj == nil {
		sfail("unknown %s.%s", path, name)
	}
	return sc.pkgObject(obj)
}

func (sc *Scope) pkgObject(obj types.Object) Val {
	vc := sc.vc
	switch o := obj.(type) {
	case *types.Const:
		t := o.Type()
		switch {
		case isBool(t):
			if constant.BoolVal(o.Val()) {
				return boolVal(TTrue)
			}
			return boolVal(TFalse)
		case isInteger(t):
			i, _ := constant.Int64Val(constant.ToInt(o.Val()))
			return scalar(t, NumI(i))
		case isFloat(t):
			return scalar(t, vc.e.constFloat(o.Val()))
		case isString(t):
			return scalar(t, NumI(int64(vc.e.strID(constant.StringVal(o.Val())))))
		}
		// untyped numeric
		if o.Val().Kind() == constant.Int {
			i, _ := constant.Int64Val(o.Val())
			return intVal(NumI(i))
		}
		if o.Val().Kind() == constant.Float {
			return scalar(tFloat64, vc.e.constFloat(o.Val()))
		}
	case *types.Var:
		lv := &LVal{Kind: LGlobal, Typ: o.Type(), Root: "G." + vc.e.shortName(o.Pkg().Path()+"."+o.Name())}
		for _, l := range vc.e.layout(lv.Typ) {
			n, s := vc.leafVar(lv, l)
			vc.noteSort(n, s)
		}
		return vc.load(sc.state(), lv)
	}
	sfail("unsupported package-level object %s", obj)
	return Val{}
}

func (fr *Frame) rangeIndexAlloc(l *Loop) *ssa.Alloc {
	// the rangeindex cell stored to in the header block
	for _, in := range l.Header.Instrs {
		if s, ok := in.(*ssa.Store); ok {
			if a, ok := s.Addr.(*ssa.Alloc); ok && a.Comment == "rangeindex" {
				return a
			}
		}
	}
	return nil
}

func (sc *Scope) lookupLocal(name string) *ssa.Alloc {
	if sc.fr == nil {
		return nil
	}
	var cands []*ssa.Alloc
	for _, b := range sc.fr.fn.Blocks {
		for _, in := range b.Instrs {
			if a, ok := in.(*ssa.Alloc); ok && a.Comment == name {
				cands = append(cands, a)
			}
		}
	}
	if len(cands) == 0 {
		return nil
	}
	if len(cands) == 1 {
		return cands[0]
	}
	// disambiguate by lexical scope at the loop position
	pos := sc.pos
	if sc.loop != nil {
		pos = sc.loop.Pos
		// names are resolved as seen from inside the loop body (the loop's own variables are declared after the `for` keyword)
		switch n := sc.loop.Node.(type) {
		case *ast.ForStmt:
			pos = n.Body.Lbrace + 1
		case *ast.RangeStmt:
			pos = n.Body.Lbrace + 1
		}
	}
	if pos.IsValid() {
		if inner := sc.pkg.Scope().Innermost(pos); inner != nil {
			if _, obj := inner.LookupParent(name, pos); obj != nil {
				for _, a := range cands {
					if a.Pos() == obj.Pos() {
						return a
					}
				}
			}
		}
	}
	// last resort: prefer parameters / earliest
	return cands[0]
}

func (sc *Scope) localValue(a *ssa.Alloc) Val {
	vc := sc.vc
	fr := sc.fr
	reg, ok := fr.env[a]
	if !ok {
		sfail("local %s is not yet declared at this point", a.Comment)
	}
	st := sc.state()
	if sc.inOld {
		// old(...) affects heap dereferences only: a parameter denotes its entry value,
		// any other local variable its current value (it has no meaningful value at entry)
		if p, ok := fr.params[a.Comment]; ok {
			return p
		}
		st = sc.cur
	}
	if reg.LV != nil {
		return vc.load(st, reg.LV)
	}
	et := a.Type().(*types.Pointer).Elem()
	return vc.load(st, vc.derefLV(reg.T(), et))
}

func (sc *Scope) selectField(a Val, name string) Val {
	vc := sc.vc
	t := a.Typ
	if t == nil {
		sfail("field %s of untyped value", name)
	}
	var pkg *types.Package
	bt := t
	if p, ok := bt.Underlying().(*types.Pointer); ok {
		bt = p.Elem()
	}
	if n, ok := bt.(*types.Named); ok {
		pkg = n.Obj().Pkg()
	}
	obj, index, _ := types.LookupFieldOrMethod(t, true, pkg, name)
	fv, ok := obj.(*types.Var)
	if !ok || !fv.IsField() {
		sfail("type %s has no field %s", t, name)
	}
	cur := a
	for _, fi := range index {
		ct := cur.Typ
		if p, ok := ct.Underlying().(*types.Pointer); ok {
			stT := p.Elem()
			f := stT.Underlying().(*types.Struct).Field(fi)
			lv := vc.fieldLV(cur.T(), stT, "."+f.Name(), f.Type())
			for _, l := range vc.e.layout(lv.Typ) {
				n, s := vc.leafVar(lv, l)
				vc.noteSort(n, s)
			}
			cur = vc.load(sc.state(), lv)
		} else {
			stT := ct.Underlying().(*types.Struct)
			off := 0
			for i := 0; i < fi; i++ {
				off += len(vc.e.layout(stT.Field(i).Type()))
			}
			n := len(vc.e.layout(stT.Field(fi).Type()))
			cur = Val{Typ: stT.Field(fi).Type(), Leaves: cur.Leaves[off : off+n]}
		}
	}
	return cur
}

func (sc *Scope) index(a Val, idxE *SExpr, x *SExpr) Val {
	vc := sc.vc
	if a.Typ == nil {
		sfail("indexing untyped value in %s", x)
	}
	switch u := a.Typ.Underlying().(type) {
	case *types.Slice:
		i := sc.compile(idxE).T()
		lv := vc.elemLV(a.sBase(), IAdd(a.sOff(), i), u.Elem())
		for _, l := range vc.e.layout(lv.Typ) {
			n, s := vc.leafVar(lv, l)
			vc.noteSort(n, s)
		}
		return vc.load(sc.state(), lv)
	case *types.Map:
		k := sc.compile(idxE)
		kt := k.T()
		if len(k.Leaves) == 2 {
			kt = k.Leaves[1]
		}
		out := Val{Typ: u.Elem()}
		for _, l := range vc.e.layout(u.Elem()) {
			vn, vs := mapValVar(u, l)
			vc.noteSort(vn, vs)
			out.Leaves = append(out.Leaves, Sel2(vc.sv(sc.state(), vn, vs), a.T(), kt))
		}
		return out
	}
	sfail("cannot index %s in %s", a.Typ, x)
	return Val{}
}

func (sc *Scope) promote(a, b Val) (Val, Val) {
	// int literal next to a float operand becomes a float literal
	if a.Typ != nil && b.Typ != nil {
		if isFloat(a.Typ) && isInteger(b.Typ) {
			if n, ok := isNumAtom(b.T()); ok {
				return a, scalar(a.Typ, sc.e().floatLit(fmt.Sprint(n)))
			}
			sfail("mixing float and int: use real(...)")
		}
		if isFloat(b.Typ) && isInteger(a.Typ) {
			if n, ok := isNumAtom(a.T()); ok {
				return scalar(b.Typ, sc.e().floatLit(fmt.Sprint(n))), b
			}
			sfail("mixing int and float: use real(...)")
		}
	}
	return a, b
}

func (sc *Scope) binary(x *SExpr) Val {
	e := sc.e()
	switch x.Op {
	case "&&":
		return boolVal(And(sc.compile(x.Args[0]).T(), sc.compile(x.Args[1]).T()))
	case "||":
		return boolVal(Or(sc.compile(x.Args[0]).T(), sc.compile(x.Args[1]).T()))
	case "==>":
		return boolVal(Imp(sc.compile(x.Args[0]).T(), sc.compile(x.Args[1]).T()))
	case "<==>":
		return boolVal(Eq(sc.compile(x.Args[0]).T(), sc.compile(x.Args[1]).T()))
	}
	a := sc.compile(x.Args[0])
	b := sc.compile(x.Args[1])
	a, b = sc.promote(a, b)
	fl := (a.Typ != nil && isFloat(a.Typ)) || (b.Typ != nil && isFloat(b.Typ))
	switch x.Op {
	case "==", "!=":
		var eq *Term
		switch {
		case len(a.Leaves) == 1 && len(b.Leaves) == 1:
			if fl {
				eq = e.fcmp("==", a.T(), b.T())
			} else {
				eq = Eq(a.T(), b.T())
			}
		case len(a.Leaves) == 4 && len(b.Leaves) == 1: // slice == nil
			eq = Eq(a.sBase(), Zero)
		case len(a.Leaves) == 1 && len(b.Leaves) == 4:
			eq = Eq(b.sBase(), Zero)
		case len(a.Leaves) == 2 && len(b.Leaves) == 1: // iface == nil
			eq = Eq(a.Leaves[0], Zero)
		case len(a.Leaves) == 1 && len(b.Leaves) == 2:
			eq = Eq(b.Leaves[0], Zero)
		case len(a.Leaves) == len(b.Leaves):
			var cs []*Term
			for i := range a.Leaves {
				cs = append(cs, Eq(a.Leaves[i], b.Leaves[i]))
			}
			eq = And(cs...)
		default:
			sfail("cannot compare in %s", x)
		}
		if x.Op == "!=" {
			eq = Not(eq)
		}
		return boolVal(eq)
	case "<", "<=", ">", ">=":
		if fl {
			return boolVal(e.fcmp(x.Op, a.T(), b.T()))
		}
		return boolVal(App(x.Op, a.T(), b.T()))
	case "+", "-", "*", "/", "%":
		if fl {
			if x.Op == "%" {
				sfail("float %% unsupported")
			}
			return scalar(tFloat64, e.fop(x.Op, a.T(), b.T()))
		}
		t := a.Typ
		switch x.Op {
		case "+":
			return scalar(t, IAdd(a.T(), b.T()))
		case "-":
			return scalar(t, ISub(a.T(), b.T()))
		case "*":
			return scalar(t, App("*", a.T(), b.T()))
		case "/":
			return scalar(t, App("div", a.T(), b.T()))
		case "%":
			return scalar(t, App("mod", a.T(), b.T()))
		}
	}
	sfail("bad operator %s", x.Op)
	return Val{}
}

func (sc *Scope) oldAlloc() *Term { return sc.vc.allocArr(sc.old) }

func (sc *Scope) call(x *SExpr) Val {
	vc := sc.vc
	e := vc.e
	if x.Recv != nil {
		sfail("method calls are not supported in specs: %s", x)
	}
	arg := func(i int) Val {
		if i >= len(x.Args) {
			sfail("%s: missing argument %d", x.Name, i)
		}
		return sc.compile(x.Args[i])
	}
	switch x.Name {
	case "len":
		a := arg(0)
		if len(a.Leaves) == 4 {
			return intVal(a.sLen())
		}
		if a.Typ != nil && isString(a.Typ) {
			return intVal(App("strlen", a.T()))
		}
		sfail("len of %s", a.Typ)
	case "cap":
		return intVal(arg(0).sCap())
	case "base":
		return intVal(arg(0).sBase())
	case "off":
		return intVal(arg(0).sOff())
	case "ite":
		c, a, b := arg(0), arg(1), arg(2)
		a, b = sc.promote(a, b)
		if len(a.Leaves) != len(b.Leaves) {
			sfail("ite branches differ in shape")
		}
		out := Val{Typ: a.Typ}
		for i := range a.Leaves {
			out.Leaves = append(out.Leaves, Ite(c.T(), a.Leaves[i], b.Leaves[i]))
		}
		return out
	case "fresh":
		a := arg(0)
		if len(a.Leaves) == 4 {
			return boolVal(Or(Eq(a.sBase(), Zero), Not(Sel(sc.oldAlloc(), a.sBase()))))
		}
		return boolVal(And(Not(Eq(a.T(), Zero)), Not(Sel(sc.oldAlloc(), a.T()))))
	case "allocated":
		a := arg(0)
		return boolVal(Sel(vc.allocArr(sc.state()), a.Leaves[0]))
	case "wasAllocated":
		a := arg(0)
		return boolVal(Sel(sc.oldAlloc(), a.Leaves[0]))
	case "allocSet":
		// allocSet(): the set of currently allocated references as an array value (for a ghost snapshot: "objects that
		// existed when X was entered"); old(allocSet()) is the set at function entry
		if sc.inOld {
			return Val{Typ: nil, Leaves: []*Term{sc.oldAlloc()}}
		}
		return Val{Typ: nil, Leaves: []*Term{vc.allocArr(sc.state())}}
	case "abs":
		a := arg(0)
		if isFloat(a.Typ) {
			if e.FloatSort == "Real" {
				return scalar(a.Typ, Ite(App(">=", a.T(), A("0.0")), a.T(), App("-", a.T())))
			}
			return scalar(a.Typ, App("fp.abs", a.T()))
		}
		return scalar(a.Typ, Ite(App(">=", a.T(), Zero), a.T(), INeg(a.T())))
	case "min", "max":
		a, b := sc.promote(arg(0), arg(1))
		op := "<="
		if x.Name == "max" {
			op = ">="
		}
		var c *Term
		if isFloat(a.Typ) {
			c = e.fcmp(op, a.T(), b.T())
		} else {
			c = App(op, a.T(), b.T())
		}
		return scalar(a.Typ, Ite(c, a.T(), b.T()))
	case "real":
		a := arg(0)
		if isFloat(a.Typ) {
			return a
		}
		if e.FloatSort == "Real" {
			if n, ok := isNumAtom(a.T()); ok {
				return scalar(tFloat64, e.floatLit(fmt.Sprint(n)))
			}
			return scalar(tFloat64, App("to_real", a.T()))
		}
		return scalar(tFloat64, App("(_ to_fp 11 53)", A("RNE"), App("to_real", a.T())))
	case "floor":
		a := arg(0)
		if e.FloatSort == "Real" {
			return scalar(tFloat64, App("to_real", App("to_int", a.T())))
		}
		return scalar(tFloat64, App("fp.roundToIntegral", A("RTN"), a.T()))
	case "floorInt":
		a := arg(0)
		if e.FloatSort == "Real" {
			return intVal(App("to_int", a.T()))
		}
		sfail("floorInt in fp mode")
	case "posInf", "negInf":
		if e.FloatSort == "Real" {
			// no real number is infinite: an unconstrained constant stands in (nothing can be derived from it)
			return scalar(tFloat64, A("real."+x.Name))
		}
		if x.Name == "posInf" {
			return scalar(tFloat64, A("(_ +oo 11 53)"))
		}
		return scalar(tFloat64, A("(_ -oo 11 53)"))
	case "arrOf": // the backing array of a slice of scalars (for recursive spec functions)
		a := arg(0)
		sl, ok := a.Typ.Underlying().(*types.Slice)
		if !ok {
			sfail("arrOf(slice)")
		}
		ls := e.layout(sl.Elem())
		if len(ls) != 1 {
			sfail("arrOf: element type must be scalar")
		}
		n := "M." + typeKey(sl.Elem())
		srt := ArrSort("Int", ArrSort("Int", ls[0].Sort))
		vc.noteSort(n, srt)
		return Val{Typ: nil, Leaves: []*Term{Sel(vc.sv(sc.state(), n, srt), a.sBase())}}
	case "distinctRefs", "sumField", "sumFieldR", "memberRef":
		// recursive spec functions over a slice of references (definitions in contracts/externals.spec)
		a := arg(0)
		sl, ok := a.Typ.Underlying().(*types.Slice)
		if !ok {
			sfail("%s(slice, ...)", x.Name)
		}
		n := "M." + typeKey(sl.Elem())
		srt := ArrSort("Int", ArrSort("Int", "Int"))
		vc.noteSort(n, srt)
		arr := Sel(vc.sv(sc.state(), n, srt), a.sBase())
		switch x.Name {
		case "distinctRefs":
			return boolVal(App("distinctRec", arr, a.sOff(), a.sLen()))
		case "memberRef":
			return boolVal(App("memberRec", arr, a.sOff(), a.sLen(), arg(1).T()))
		case "sumField":
			return intVal(App("sumFI", arr, a.sOff(), a.sLen(), arg(1).T()))
		default:
			return scalar(tFloat64, App("sumFR", arr, a.sOff(), a.sLen(), arg(1).T()))
		}
	case "sel":
		// sel(a, i): element of a ghost array (the element type follows the ghost variable's declared sort)
		a, i := arg(0), arg(1)
		var t types.Type = tBool
		if x.Args[0].Kind == SIdent || (x.Args[0].Kind == SOld && x.Args[0].Args[0].Kind == SIdent) {
			id := x.Args[0]
			if id.Kind == SOld {
				id = id.Args[0]
			}
			if gd, ok := e.Ghosts[id.Name]; ok && strings.HasSuffix(gd.Sort, " Int)") {
				t = tInt
			}
		}
		return scalar(t, Sel(a.T(), i.T()))
	case "upd":
		// upd(a, i, v): ghost array a with element i replaced by v
		a, i, v := arg(0), arg(1), arg(2)
		return Val{Typ: nil, Leaves: []*Term{Sto(a.T(), i.T(), v.T())}}
	case "heapOf", "lenOf":
		// heapOf(T.f): the current value of field f for all objects, as an array (argument for recursive spec functions)
		if len(x.Args) != 1 || x.Args[0].Kind != SSel {
			sfail("heapOf(T.f)")
		}
		a := x.Args[0]
		var te *TypeExpr
		switch q := a.Args[0]; {
		case q.Kind == SIdent:
			te = &TypeExpr{Name: q.Name}
		case q.Kind == SSel && q.Args[0].Kind == SIdent:
			te = &TypeExpr{Pkg: q.Args[0].Name, Name: q.Name} // pkg.T.f
		default:
			sfail("heapOf(T.f)")
		}
		t := sc.resolveType(te)
		st, ok := t.Underlying().(*types.Struct)
		if !ok {
			sfail("heapOf: %s is not a struct", a.Args[0].Name)
		}
		for i := 0; i < st.NumFields(); i++ {
			if st.Field(i).Name() == a.Name {
				lv := vc.fieldLV(Zero, t, "."+a.Name, st.Field(i).Type())
				ls := vc.e.layout(lv.Typ)
				if x.Name == "lenOf" {
					// lenOf(T.f): the length of slice field f for all objects, as an array (sums of list lengths)
					if len(ls) != 4 {
						sfail("lenOf: field must be a slice")
					}
					n, srt := vc.leafVar(lv, ls[2])
					vc.noteSort(n, srt)
					return Val{Typ: nil, Leaves: []*Term{vc.sv(sc.state(), n, srt)}}
				}
				if len(ls) != 1 {
					sfail("heapOf: field must be scalar")
				}
				n, srt := vc.leafVar(lv, ls[0])
				vc.noteSort(n, srt)
				return Val{Typ: nil, Leaves: []*Term{vc.sv(sc.state(), n, srt)}}
			}
		}
		sfail("heapOf: no field %s", a.Name)
	case "nan": // IEEE NaN test; no real number is NaN
		a := arg(0)
		if e.FloatSort == "Real" {
			return boolVal(TFalse)
		}
		return boolVal(App("fp.isNaN", a.T()))
	case "fin": // IEEE finiteness; every real number is finite
		a := arg(0)
		if e.FloatSort == "Real" {
			return boolVal(TTrue)
		}
		return boolVal(And(Not(App("fp.isNaN", a.T())), Not(App("fp.isInfinite", a.T()))))
	case "isNegative": // sign bit (true for -0 in fp mode)
		a := arg(0)
		if e.FloatSort == "Real" {
			return boolVal(App("<", a.T(), A("0.0")))
		}
		return boolVal(App("fp.isNegative", a.T()))
	case "isNaN":
		a := arg(0)
		if e.FloatSort == "Real" {
			return boolVal(App("isNaN", a.T()))
		}
		return boolVal(App("fp.isNaN", a.T()))
	case "isInf":
		a := arg(0)
		if e.FloatSort == "Real" {
			return boolVal(TFalse)
		}
		return boolVal(App("fp.isInfinite", a.T()))
	case "finite":
		a := arg(0)
		if e.FloatSort == "Real" {
			return boolVal(Not(App("isNaN", a.T())))
		}
		return boolVal(And(Not(App("fp.isNaN", a.T())), Not(App("fp.isInfinite", a.T()))))
	case "mapHas":
		m, k := arg(0), arg(1)
		mt, ok := m.Typ.Underlying().(*types.Map)
		if !ok {
			sfail("mapHas on non-map")
		}
		dn, ds := mapDomVar(mt)
		vc.noteSort(dn, ds)
		kt := k.T()
		if len(k.Leaves) == 2 {
			kt = k.Leaves[1]
		}
		return boolVal(And(Not(Eq(m.T(), Zero)), Sel2(vc.sv(sc.state(), dn, ds), m.T(), kt)))
	case "ms":
		a := arg(0)
		sl, ok := a.Typ.Underlying().(*types.Slice)
		if !ok {
			sfail("ms(slice)")
		}
		ls := e.layout(sl.Elem())
		if len(ls) != 1 {
			sfail("ms: element type must be scalar")
		}
		n := "M." + typeKey(sl.Elem())
		srt := ArrSort("Int", ArrSort("Int", ls[0].Sort))
		vc.noteSort(n, srt)
		f := "msOfI"
		if ls[0].Kind == "float" {
			f = "msOfF"
		}
		return Val{Typ: msetType, Leaves: []*Term{App(f, Sel(vc.sv(sc.state(), n, srt), a.sBase()), a.sOff(), a.sLen())}}
	case "seq":
		// seq(s): the sequence of values of a slice of scalars, as an abstract value (extensional)
		a := arg(0)
		sl, ok := a.Typ.Underlying().(*types.Slice)
		if !ok {
			sfail("seq(slice)")
		}
		ls := e.layout(sl.Elem())
		if len(ls) != 1 {
			sfail("seq: element type must be scalar")
		}
		n := "M." + typeKey(sl.Elem())
		srt := ArrSort("Int", ArrSort("Int", ls[0].Sort))
		vc.noteSort(n, srt)
		f := "seqOfI"
		if ls[0].Kind == "float" {
			f = "seqOfF"
		}
		return Val{Typ: seqType, Leaves: []*Term{App(f, Sel(vc.sv(sc.state(), n, srt), a.sBase()), a.sOff(), a.sLen())}}
	case "sameSlice":
		a, b := arg(0), arg(1)
		var cs []*Term
		for i := 0; i < 4; i++ {
			cs = append(cs, Eq(a.Leaves[i], b.Leaves[i]))
		}
		return boolVal(And(cs...))
	case "isNilIface":
		return boolVal(Eq(arg(0).Leaves[0], Zero))
	case "typeIs":
		// typeIs(x, "T") where T is a type expression string
		a := arg(0)
		if len(x.Args) != 2 || x.Args[1].Kind != SStr {
			sfail("typeIs(x, \"type\")")
		}
		toks, err := lexSpec(x.Args[1].Lit)
		if err != nil {
			sfail("%v", err)
		}
		sp := &sparser{toks: toks, src: x.Args[1].Lit}
		te, err := sp.typeExpr()
		if err != nil {
			sfail("%v", err)
		}
		return boolVal(Eq(a.Leaves[0], NumI(int64(e.typeID(sc.resolveType(te))))))
	case "ifaceVal":
		a := arg(0)
		return intVal(a.Leaves[1])
	case "asPtr":
		// asPtr(x, "*T"): the pointer held by interface value x (meaningful when typeIs(x, "*T"))
		a := arg(0)
		if len(x.Args) != 2 || x.Args[1].Kind != SStr {
			sfail("asPtr(x, \"*T\")")
		}
		toks, err := lexSpec(x.Args[1].Lit)
		if err != nil {
			sfail("%v", err)
		}
		sp := &sparser{toks: toks, src: x.Args[1].Lit}
		te, err := sp.typeExpr()
		if err != nil {
			sfail("%v", err)
		}
		return scalar(sc.resolveType(te), a.Leaves[1])
	case "preserved":
		// preserved(T.f): every object allocated in the pre-state keeps field f
		return boolVal(sc.preserved(x))
	case "unchanged":
		a := arg(0)
		return boolVal(sc.unchangedSlice(a))
	}
	if pd, ok := e.Preds[x.Name]; ok {
		if len(pd.Params) != len(x.Args) {
			sfail("%s expects %d arguments", x.Name, len(pd.Params))
		}
		if sc.depth > 12 {
			sfail("predicate expansion too deep at %s", x.Name)
		}
		n := sc.child()
		n.depth = sc.depth + 1
		// predicate bodies see only their parameters
		n.vars = map[string]Val{}
		for i, p := range pd.Params {
			v := arg(i)
			if p.Type != nil {
				pt := sc.resolveTypeIn(p.Type, pd.Pkg)
				v = sc.adapt(v, pt)
			}
			n.vars[p.Name] = v
		}
		if pd.Pkg != "" {
			if p := e.Pkgs[pd.Pkg]; p != nil {
				n.pkg = p.Types
			}
		}
		n.fr = nil
		n.loop = nil
		return n.compile(pd.Body)
	}
	if uf, ok := e.UFuncs[x.Name]; ok {
		var args []*Term
		for i := range x.Args {
			a := arg(i)
			if i < len(uf.Args) && (uf.Args[i] == "Real" || uf.Args[i] == "Float") && a.Typ != nil && isInteger(a.Typ) {
				if n, ok := isNumAtom(a.T()); ok {
					a = scalar(tFloat64, e.floatLit(fmt.Sprint(n)))
				}
			}
			args = append(args, a.T())
		}
		var t types.Type = tInt
		switch uf.Ret {
		case "Bool":
			t = tBool
		case "Real", "Float":
			t = tFloat64
		}
		if strings.HasPrefix(uf.Ret, "(_ FloatingPoint") {
			t = tFloat64
		}
		if len(args) == 0 {
			return scalar(t, A(uf.Name))
		}
		return scalar(t, App(uf.Name, args...))
	}
	sfail("unknown function %s in spec", x.Name)
	return Val{}
}

func (sc *Scope) resolveTypeIn(te *TypeExpr, pkgPath string) types.Type {
	if pkgPath != "" {
		if p := sc.e().Pkgs[pkgPath]; p != nil {
			n := *sc
			n.pkg = p.Types
			return n.resolveType(te)
		}
	}
	return sc.resolveType(te)
}

// adapt gives an untyped nil / numeric value the declared parameter type.
func (sc *Scope) adapt(v Val, t types.Type) Val {
	ls := sc.e().layout(t)
	if len(ls) == len(v.Leaves) {
		return Val{Typ: t, Leaves: v.Leaves}
	}
	if len(v.Leaves) == 1 && v.Leaves[0].String() == "0" {
		return sc.e().zeroVal(t)
	}
	sfail("argument of type %v does not fit parameter type %v", v.Typ, t)
	return v
}

func (sc *Scope) preserved(x *SExpr) *Term {
	vc := sc.vc
	if len(x.Args) != 1 {
		sfail("preserved(T.f) or preserved(Mem[T])")
	}
	a := x.Args[0]
	var names []string
	switch a.Kind {
	case SSel:
		if a.Args[0].Kind != SIdent {
			sfail("preserved(T.f)")
		}
		te := &TypeExpr{Name: a.Args[0].Name}
		t := sc.resolveType(te)
		st, ok := t.Underlying().(*types.Struct)
		if !ok {
			sfail("preserved: %s is not a struct", te)
		}
		found := false
		for i := 0; i < st.NumFields(); i++ {
			if st.Field(i).Name() == a.Name {
				found = true
				lv := vc.fieldLV(Zero, t, "."+a.Name, st.Field(i).Type())
				for _, l := range vc.e.layout(lv.Typ) {
					n, s := vc.leafVar(lv, l)
					vc.noteSort(n, s)
					names = append(names, n)
				}
			}
		}
		if !found {
			sfail("preserved: no field %s", a.Name)
		}
	case SMem:
		t := sc.resolveType(a.Type)
		for _, l := range vc.e.layout(t) {
			n := "M." + typeKey(t) + l.Path
			vc.noteSort(n, ArrSort("Int", ArrSort("Int", l.Sort)))
			names = append(names, n)
		}
	case SSel + 100:
	default:
		sfail("preserved(T.f) or preserved(Mem[T])")
	}
	var cs []*Term
	oa := sc.oldAlloc()
	for _, n := range names {
		srt := vc.varSort(n)
		cur := vc.sv(sc.cur, n, srt)
		old := vc.sv(sc.old, n, srt)
		if cur.String() == old.String() {
			continue
		}
		*sc.nq++
		r := fmt.Sprintf("r$%d", *sc.nq)
		cs = append(cs, Forall([][2]string{{r, "Int"}}, Imp(Sel(oa, A(r)), Eq(Sel(cur, A(r)), Sel(old, A(r)))), []*Term{Sel(cur, A(r))}))
	}
	return And(cs...)
}

func (sc *Scope) unchangedSlice(a Val) *Term {
	vc := sc.vc
	sl, ok := a.Typ.Underlying().(*types.Slice)
	if !ok {
		sfail("unchanged(slice)")
	}
	var cs []*Term
	for _, l := range vc.e.layout(sl.Elem()) {
		n := "M." + typeKey(sl.Elem()) + l.Path
		srt := ArrSort("Int", ArrSort("Int", l.Sort))
		vc.noteSort(n, srt)
		cur := vc.sv(sc.cur, n, srt)
		old := vc.sv(sc.old, n, srt)
		if cur.String() == old.String() {
			continue
		}
		*sc.nq++
		p := A(fmt.Sprintf("p$%d", *sc.nq))
		cs = append(cs, Forall([][2]string{{p.Atom, "Int"}},
			Imp(And(App("<=", a.sOff(), p), App("<", p, IAdd(a.sOff(), a.sLen()))), Eq(Sel2(cur, a.sBase(), p), Sel2(old, a.sBase(), p))),
			[]*Term{Sel2(cur, a.sBase(), p)}))
	}
	return And(cs...)
}

// ---------------------------------------------------------------------------
// quantifiers

func mentions(x *SExpr, names map[string]bool) bool {
	if x == nil {
		return false
	}
	if x.Kind == SIdent && names[x.Name] {
		return true
	}
	for _, a := range x.Args {
		if mentions(a, names) {
			return true
		}
	}
	if x.Recv != nil && mentions(x.Recv, names) {
		return true
	}
	return false
}

type anchor struct {
	base  *SExpr
	shift *SExpr // index = var + shift (may be nil)
	neg   bool   // index = var - shift
	inOld bool
}

// findAnchor finds a slice index expression whose index is v, v+c or v-c and
// whose base does not mention any bound variable.
func findAnchor(x *SExpr, v string, bound map[string]bool, inOld bool) *anchor {
	if x == nil {
		return nil
	}
	if x.Kind == SOld {
		return findAnchor(x.Args[0], v, bound, true)
	}
	if x.Kind == SQuant {
		// do not look into nested quantifiers that rebind v
		for _, b := range x.Binders {
			if b.Name == v {
				return nil
			}
		}
	}
	if x.Kind == SIndex && !mentions(x.Args[0], bound) {
		idx := x.Args[1]
		if idx.Kind == SIdent && idx.Name == v {
			return &anchor{base: x.Args[0], inOld: inOld}
		}
		if idx.Kind == SBinary && (idx.Op == "+" || idx.Op == "-") && idx.Args[0].Kind == SIdent && idx.Args[0].Name == v && !mentions(idx.Args[1], bound) {
			return &anchor{base: x.Args[0], shift: idx.Args[1], neg: idx.Op == "-", inOld: inOld}
		}
	}
	for _, a := range x.Args {
		if r := findAnchor(a, v, bound, inOld); r != nil {
			return r
		}
	}
	return nil
}

func (sc *Scope) quant(x *SExpr) Val {
	n := sc.child()
	bound := map[string]bool{}
	for _, b := range x.Binders {
		bound[b.Name] = true
	}
	var vars [][2]string
	for _, b := range x.Binders {
		*sc.nq++
		t := sc.resolveType(b.Type)
		ls := sc.e().layout(t)
		if len(ls) != 1 {
			sfail("bound variable %s must be scalar", b.Name)
		}
		name := fmt.Sprintf("%s$%d", b.Name, *sc.nq)
		vars = append(vars, [2]string{name, ls[0].Sort})
		n.vars[b.Name] = scalar(t, A(name))
		if isInteger(t) {
			if an := findAnchor(x.Args[0], b.Name, bound, sc.inOld); an != nil {
				// compile the anchor base outside the quantifier
				bs := *sc
				bs.inOld = an.inOld
				bv, err := bs.compileVal(an.base)
				if err == nil && len(bv.Leaves) == 4 && bv.Typ != nil {
					if _, isSl := bv.Typ.Underlying().(*types.Slice); isSl {
						iv := ISub(A(name), bv.sOff())
						if an.shift != nil {
							sv, err := bs.compileVal(an.shift)
							if err == nil && len(sv.Leaves) == 1 {
								if an.neg {
									iv = IAdd(iv, sv.T())
								} else {
									iv = ISub(iv, sv.T())
								}
							}
						}
						n.vars[b.Name] = scalar(t, iv)
					}
				}
			}
		}
	}
	body := n.compile(x.Args[0])
	if !isBoolVal(body) {
		sfail("quantifier body must be boolean")
	}
	if x.Op == "forall" {
		return boolVal(Forall(vars, body.T()))
	}
	return boolVal(Exists(vars, body.T()))
}
