package main

import (
	"fmt"
	"go/ast"
	"go/token"
	"go/types"
	"math"
	"math/big"
	"os"
	"path/filepath"
	"sort"
	"strings"

	"golang.org/x/tools/go/packages"
	"golang.org/x/tools/go/ssa"
	"golang.org/x/tools/go/ssa/ssautil"
)

const modPath = "github.com/yaricom/goNEAT/v4"

type Engine struct {
	RepoDir   string
	Fset      *token.FileSet
	Prog      *ssa.Program
	Pkgs      map[string]*packages.Package // by import path (repo packages + deps)
	SPkgs     map[string]*ssa.Package
	RepoPkgs  []string
	Funcs     map[string]*ssa.Function // canonical name -> function (repo packages incl. anon)
	Contracts map[string]*FuncContract // canonical name -> contract
	Preds     map[string]*PredDef      // name -> def (package-qualified lookups resolved at use)
	UFuncs    map[string]*UFunc
	Axioms    []*AxiomDef
	Ghosts    map[string]*GhostDef
	SpecFiles []string
	VarFuncs  map[string]*ssa.Function // "var pkg.name" -> function stored there by the package initialiser
	VarStores map[string]int           // number of stores to the global outside the package initialiser
	Guards    map[string]*GuardDef     // "H.<typekey>.<field>" -> discipline
	Lemmas    []*LemmaDef
	SmtDefs   []*SmtDef

	strIDs   map[string]int
	typeIDs  map[string]int
	typeByID map[int]types.Type

	layouts map[string][]Leaf

	FloatSort string // "Real" default
	ufArith   bool   // contract keyword "ufarith": symbolic float products / quotients are uninterpreted
	seqAxioms bool   // emit the extensionality / access axioms of seq() (opt-in: `uses seq_ext`)
}

type Leaf struct {
	Path string // e.g. ".Genes#b"
	Sort string
	Typ  types.Type // Go type of the scalar leaf (nil for slice/iface parts)
	Kind string     // "int","bool","float","string","ref","sb","so","sl","sc","it","iv","map","func"
}

func NewEngine(repo string) (*Engine, error) {
	e := &Engine{RepoDir: repo, Pkgs: map[string]*packages.Package{}, SPkgs: map[string]*ssa.Package{},
		Funcs: map[string]*ssa.Function{}, Contracts: map[string]*FuncContract{}, Preds: map[string]*PredDef{},
		UFuncs: map[string]*UFunc{}, Ghosts: map[string]*GhostDef{}, strIDs: map[string]int{}, typeIDs: map[string]int{},
		typeByID: map[int]types.Type{}, layouts: map[string][]Leaf{}, FloatSort: "Real",
		VarFuncs: map[string]*ssa.Function{}, VarStores: map[string]int{}}
	cfg := &packages.Config{Mode: packages.LoadAllSyntax, Dir: repo, BuildFlags: []string{"-tags=verif"},
		Env: append(os.Environ(), "GOFLAGS=-mod=mod", "GOPROXY=off", "GOSUMDB=off", "GOTOOLCHAIN=local")}
	pkgs, err := packages.Load(cfg, "./neat/...", "./experiment", ".")
	if err != nil {
		return nil, err
	}
	for _, p := range pkgs {
		if len(p.Errors) > 0 {
			return nil, fmt.Errorf("package %s: %v", p.PkgPath, p.Errors[0])
		}
	}
	e.Fset = pkgs[0].Fset
	prog, spkgs := ssautil.AllPackages(pkgs, ssa.NaiveForm)
	e.Prog = prog
	packages.Visit(pkgs, nil, func(p *packages.Package) { e.Pkgs[p.PkgPath] = p })
	for i, p := range pkgs {
		e.RepoPkgs = append(e.RepoPkgs, p.PkgPath)
		if spkgs[i] != nil {
			spkgs[i].Build()
		}
	}
	for _, sp := range prog.AllPackages() {
		e.SPkgs[sp.Pkg.Path()] = sp
	}
	// index functions of repo packages
	for _, path := range e.RepoPkgs {
		sp := e.SPkgs[path]
		if sp == nil {
			continue
		}
		var add func(f *ssa.Function)
		add = func(f *ssa.Function) {
			if f == nil || f.Synthetic != "" && !strings.HasPrefix(f.Synthetic, "package init") {
				return
			}
			if _, ok := e.Funcs[f.String()]; ok {
				return
			}
			e.Funcs[f.String()] = f
			for _, an := range f.AnonFuncs {
				add(an)
			}
		}
		for _, m := range sp.Members {
			switch m := m.(type) {
			case *ssa.Function:
				add(m)
			case *ssa.Type:
				for _, t := range []types.Type{m.Type(), types.NewPointer(m.Type())} {
					ms := prog.MethodSets.MethodSet(t)
					for i := 0; i < ms.Len(); i++ {
						f := prog.MethodValue(ms.At(i))
						if f != nil && f.Synthetic == "" {
							add(f)
						}
					}
				}
			}
		}
	}
	e.indexVarFuncs()
	return e, nil
}

// indexVarFuncs resolves package-level `var f = func...` through the package
// initialiser, and counts stores to such globals elsewhere (they must be none
// for the contract of the variable to be the contract of the function).
func (e *Engine) indexVarFuncs() {
	for _, path := range e.RepoPkgs {
		sp := e.SPkgs[path]
		if sp == nil {
			continue
		}
		for _, f := range e.Funcs {
			if f.Pkg != sp {
				continue
			}
			isInit := strings.HasPrefix(f.Synthetic, "package init")
			for _, b := range f.Blocks {
				for _, in := range b.Instrs {
					st, ok := in.(*ssa.Store)
					if !ok {
						continue
					}
					g, ok := st.Addr.(*ssa.Global)
					if !ok {
						continue
					}
					if _, isSig := g.Type().(*types.Pointer).Elem().Underlying().(*types.Signature); !isSig {
						continue
					}
					key := "var " + g.String()
					if !isInit {
						e.VarStores[key]++
						continue
					}
					v := st.Val
					if ct, ok := v.(*ssa.ChangeType); ok {
						v = ct.X
					}
					switch fv := v.(type) {
					case *ssa.Function:
						e.VarFuncs[key] = fv
					case *ssa.MakeClosure:
						if ff, ok := fv.Fn.(*ssa.Function); ok && len(fv.Bindings) == 0 {
							e.VarFuncs[key] = ff
						}
					}
				}
			}
		}
	}
}

// baseKey strips a contract variant suffix ("@fp").
func baseKey(key string) string {
	if k := strings.LastIndex(key, "@"); k > 0 {
		return key[:k]
	}
	return key
}

// lookupFunc finds the function a contract key denotes.
func (e *Engine) lookupFunc(key string) *ssa.Function {
	key = baseKey(key)
	if f, ok := e.Funcs[key]; ok {
		return f
	}
	if f, ok := e.VarFuncs[key]; ok {
		return f
	}
	return nil
}

func (e *Engine) shortName(canon string) string {
	s := strings.ReplaceAll(canon, modPath+"/neat/genetics.", "genetics.")
	s = strings.ReplaceAll(s, modPath+"/neat/network.", "network.")
	s = strings.ReplaceAll(s, modPath+"/neat/math.", "nmath.")
	s = strings.ReplaceAll(s, modPath+"/neat.", "neat.")
	s = strings.ReplaceAll(s, modPath+"/experiment.", "experiment.")
	s = strings.ReplaceAll(s, modPath+".", "goneat.")
	return s
}

// canonKey expands a contract key written relative to package pkgPath into
// the canonical ssa function name.
func canonKey(key, pkgPath string) string {
	key = strings.TrimSpace(key)
	if k := strings.LastIndex(key, "@"); k > 0 {
		return canonKey(key[:k], pkgPath) + key[k:]
	}
	if k := strings.Index(key, "("); k > 0 && !strings.HasPrefix(key, "(") {
		// tolerate "name(params)" - drop the parameter list
		key = strings.TrimSpace(key[:k])
	}
	if strings.HasPrefix(key, "var ") {
		name := strings.TrimSpace(key[4:])
		if strings.Contains(name, ".") || pkgPath == "" {
			return "var " + expandPkg(name)
		}
		return "var " + pkgPath + "." + name
	}
	if strings.HasPrefix(key, "(") {
		end := strings.Index(key, ")")
		recv := key[1:end]
		rest := key[end+1:]
		star := ""
		if strings.HasPrefix(recv, "*") {
			star = "*"
			recv = recv[1:]
		}
		if !strings.Contains(recv, ".") && pkgPath != "" {
			recv = pkgPath + "." + recv
		} else {
			recv = expandPkg(recv)
		}
		return "(" + star + recv + ")" + rest
	}
	if strings.Contains(key, ".") && (pkgPath == "" || isQualified(key)) {
		return expandPkg(key)
	}
	if pkgPath == "" {
		return key
	}
	return pkgPath + "." + key
}

var pkgAliases = map[string]string{
	"genetics":   modPath + "/neat/genetics",
	"network":    modPath + "/neat/network",
	"nmath":      modPath + "/neat/math",
	"neat":       modPath + "/neat",
	"experiment": modPath + "/experiment",
	"goneat":     modPath,
	"stat":       "gonum.org/v1/gonum/stat",
	"floats":     "gonum.org/v1/gonum/floats",
	"graph":      "gonum.org/v1/gonum/graph",
	"errors2":    "github.com/pkg/errors",
	"rand":       "math/rand",
	"atomic":     "sync/atomic",
}

func isQualified(key string) bool {
	k := strings.LastIndex(key, ".")
	if k < 0 {
		return false
	}
	q := key[:k]
	if _, ok := pkgAliases[q]; ok {
		return true
	}
	return strings.Contains(q, "/") || q == "math" || q == "sort" || q == "fmt" || q == "errors" || q == "sync" || q == "time" || q == "context" || q == "strings" || q == "os" || q == "io"
}

func expandPkg(name string) string {
	k := strings.LastIndex(name, ".")
	if k < 0 {
		return name
	}
	q := name[:k]
	if full, ok := pkgAliases[q]; ok {
		return full + name[k:]
	}
	return name
}

// LoadSpecs reads the contract files: zz_contracts_verif.go in every repo
// package and every *.spec file in extDir.
func (e *Engine) LoadSpecs(extDir string) error {
	var files [][2]string
	for _, path := range e.RepoPkgs {
		p := e.Pkgs[path]
		for _, f := range p.GoFiles {
			if strings.HasSuffix(f, "_verif.go") {
				files = append(files, [2]string{f, path})
			}
		}
	}
	if extDir != "" {
		m, _ := filepath.Glob(filepath.Join(extDir, "*.spec"))
		sort.Strings(m)
		for _, f := range m {
			files = append(files, [2]string{f, ""})
		}
	}
	for _, fp := range files {
		sf, err := ParseSpecFile(fp[0], fp[1])
		if err != nil {
			return err
		}
		e.SpecFiles = append(e.SpecFiles, fp[0])
		for _, pd := range sf.Preds {
			if _, dup := e.Preds[pd.Name]; dup {
				return fmt.Errorf("%s:%d: duplicate pred %s", pd.File, pd.Line, pd.Name)
			}
			e.Preds[pd.Name] = pd
		}
		for _, uf := range sf.UFuncs {
			e.UFuncs[uf.Name] = uf
		}
		e.Axioms = append(e.Axioms, sf.Axioms...)
		e.Lemmas = append(e.Lemmas, sf.Lemmas...)
		e.SmtDefs = append(e.SmtDefs, sf.SmtDefs...)
		for _, gd := range sf.Guards {
			t := e.resolveTypeString(gd.Type, gd.Pkg)
			if t == nil {
				return fmt.Errorf("%s:%d: unknown type %s", gd.File, gd.Line, gd.Type)
			}
			if e.Guards == nil {
				e.Guards = map[string]*GuardDef{}
			}
			e.Guards["H."+typeKey(t)+"."+gd.Field] = gd
		}
		for _, g := range sf.Ghosts {
			e.Ghosts[g.Name] = g
		}
		for _, fc := range sf.Funcs {
			key := canonKey(fc.Key, fp[1])
			if fc.IsLemma {
				key = fc.Key
			}
			fc.Key = key
			if fc.IsLemma && fc.RawClaim != "" {
				// a lemma proved by induction is available to other contracts as an axiom of the same name
				name := strings.TrimPrefix(fc.Key, "lemma ")
				binders := fc.RawVars
				body := fc.RawClaim
				if fc.Induct != "" {
					binders = "(" + fc.Induct + " Int) " + binders
					body = "(=> (>= " + fc.Induct + " 0) " + body + ")"
				}
				raw := "(forall (" + binders + ") " + body + ")"
				if fc.RawPat != "" {
					raw = "(forall (" + binders + ") (! " + body + " :pattern (" + fc.RawPat + ")))"
				}
				e.Axioms = append(e.Axioms, &AxiomDef{Name: name, Raw: raw, Pkg: fp[1], File: fc.File, Line: fc.Line, Src: "lemma " + name + " (proved by induction in this run)", FromLemma: true})
			}
			if _, dup := e.Contracts[key]; dup {
				return fmt.Errorf("%s:%d: duplicate contract for %s", fc.File, fc.Line, key)
			}
			e.Contracts[key] = fc
		}
	}
	return nil
}

// ---------------------------------------------------------------------------
// type keys and layouts

func typeKey(t types.Type) string {
	switch t := t.(type) {
	case *types.Named:
		o := t.Obj()
		if o.Pkg() == nil {
			return o.Name()
		}
		name := o.Pkg().Name()
		if o.Pkg().Path() == modPath+"/neat/math" {
			name = "nmath"
		}
		return name + "." + o.Name()
	case *types.Alias:
		return typeKey(types.Unalias(t))
	case *types.Pointer:
		return "P." + typeKey(t.Elem())
	case *types.Slice:
		return "S." + typeKey(t.Elem())
	case *types.Array:
		return fmt.Sprintf("A%d.%s", t.Len(), typeKey(t.Elem()))
	case *types.Basic:
		return t.Name()
	case *types.Map:
		return "map." + typeKey(t.Key()) + "." + typeKey(t.Elem())
	case *types.Signature:
		return "func"
	case *types.Interface:
		if t.Empty() {
			return "any"
		}
		return "iface"
	case *types.Struct:
		return smtName("struct" + fmt.Sprint(t.NumFields()) + "_" + t.String())
	case *types.Chan:
		return "chan"
	case *types.Tuple:
		return "tuple"
	}
	return smtName(t.String())
}

func isFloat(t types.Type) bool {
	b, ok := t.Underlying().(*types.Basic)
	return ok && b.Info()&types.IsFloat != 0
}
func isInteger(t types.Type) bool {
	b, ok := t.Underlying().(*types.Basic)
	return ok && b.Info()&types.IsInteger != 0
}
func isString(t types.Type) bool {
	b, ok := t.Underlying().(*types.Basic)
	return ok && b.Info()&types.IsString != 0
}
func isBool(t types.Type) bool {
	b, ok := t.Underlying().(*types.Basic)
	return ok && b.Info()&types.IsBoolean != 0
}
func isStruct(t types.Type) bool {
	_, ok := t.Underlying().(*types.Struct)
	return ok
}

var msetType = types.NewNamed(types.NewTypeName(token.NoPos, nil, "MSet", nil), types.Typ[types.Int], nil)
var seqType = types.NewNamed(types.NewTypeName(token.NoPos, nil, "Seq", nil), types.Typ[types.Int], nil)

func (e *Engine) layout(t types.Type) []Leaf {
	if t == msetType {
		return []Leaf{{"", "MSet", t, "mset"}}
	}
	if t == seqType {
		return []Leaf{{"", "VSeq", t, "seq"}}
	}
	k := t.String()
	if l, ok := e.layouts[k]; ok {
		return l
	}
	var out []Leaf
	switch u := t.Underlying().(type) {
	case *types.Basic:
		switch {
		case u.Info()&types.IsBoolean != 0:
			out = []Leaf{{"", "Bool", t, "bool"}}
		case u.Info()&types.IsInteger != 0:
			out = []Leaf{{"", "Int", t, "int"}}
		case u.Info()&types.IsFloat != 0:
			out = []Leaf{{"", e.FloatSort, t, "float"}}
		case u.Info()&types.IsString != 0:
			out = []Leaf{{"", "Int", t, "string"}}
		case u.Kind() == types.UnsafePointer:
			out = []Leaf{{"", "Int", t, "ref"}}
		case u.Kind() == types.UntypedNil:
			out = []Leaf{{"", "Int", t, "ref"}}
		default:
			out = []Leaf{{"", "Int", t, "int"}}
		}
	case *types.Pointer:
		out = []Leaf{{"", "Int", t, "ref"}}
	case *types.Map:
		out = []Leaf{{"", "Int", t, "map"}}
	case *types.Chan:
		out = []Leaf{{"", "Int", t, "ref"}}
	case *types.Signature:
		out = []Leaf{{"", "Int", t, "func"}}
	case *types.Slice:
		out = []Leaf{{"#b", "Int", nil, "sb"}, {"#o", "Int", nil, "so"}, {"#l", "Int", nil, "sl"}, {"#c", "Int", nil, "sc"}}
	case *types.Interface:
		out = []Leaf{{"#t", "Int", nil, "it"}, {"#v", "Int", nil, "iv"}}
	case *types.Struct:
		for i := 0; i < u.NumFields(); i++ {
			f := u.Field(i)
			for _, l := range e.layout(f.Type()) {
				out = append(out, Leaf{"." + f.Name() + l.Path, l.Sort, l.Typ, l.Kind})
			}
		}
	case *types.Array:
		// arrays only live behind pointers (bases); a by-value array is opaque
		out = []Leaf{{"", "Int", t, "ref"}}
	case *types.Tuple:
		for i := 0; i < u.Len(); i++ {
			for _, l := range e.layout(u.At(i).Type()) {
				out = append(out, Leaf{fmt.Sprintf("$%d%s", i, l.Path), l.Sort, l.Typ, l.Kind})
			}
		}
	default:
		out = []Leaf{{"", "Int", t, "int"}}
	}
	e.layouts[k] = out
	return out
}

var leafKindCache map[string]string

// leafKindOf returns the layout kind ("ref", "int", "sb", ...) of a heap / memory / map / global state variable.
func (e *Engine) leafKindOf(name string) string {
	if leafKindCache == nil {
		leafKindCache = map[string]string{}
		for _, t := range e.knownTypes() {
			tk := typeKey(t)
			for _, l := range e.layout(t) {
				if isStruct(t) {
					leafKindCache["H."+tk+l.Path] = l.Kind
				}
				leafKindCache["M."+tk+l.Path] = l.Kind
				leafKindCache["H.box."+tk+l.Path] = l.Kind
			}
			if mt, ok := t.Underlying().(*types.Map); ok {
				for _, l := range e.layout(mt.Elem()) {
					vn, _ := mapValVar(mt, l)
					leafKindCache[vn] = l.Kind
				}
			}
		}
		for _, path := range e.RepoPkgs {
			sc := e.Pkgs[path].Types.Scope()
			for _, n := range sc.Names() {
				if v, ok := sc.Lookup(n).(*types.Var); ok {
					root := "G." + e.shortName(path+"."+v.Name())
					for _, l := range e.layout(v.Type()) {
						leafKindCache[root+l.Path] = l.Kind
					}
				}
			}
		}
	}
	return leafKindCache[name]
}

func (e *Engine) strID(s string) int {
	if id, ok := e.strIDs[s]; ok {
		return id
	}
	id := len(e.strIDs) + 1
	e.strIDs[s] = id
	return id
}

func (e *Engine) typeID(t types.Type) int {
	k := t.String()
	if id, ok := e.typeIDs[k]; ok {
		return id
	}
	id := len(e.typeIDs) + 1
	e.typeIDs[k] = id
	e.typeByID[id] = t
	return id
}

// Val is a symbolic Go value: one SMT term per layout leaf of its type.
type Val struct {
	Typ    types.Type
	Leaves []*Term
	// for address-valued registers
	LV *LVal
}

func (v Val) T() *Term {
	if len(v.Leaves) == 0 {
		panic(fmt.Sprintf("Val.T on empty value of type %v", v.Typ))
	}
	return v.Leaves[0]
}

func scalar(t types.Type, term *Term) Val { return Val{Typ: t, Leaves: []*Term{term}} }

var (
	tInt     = types.Typ[types.Int]
	tBool    = types.Typ[types.Bool]
	tFloat64 = types.Typ[types.Float64]
	tString  = types.Typ[types.String]
)

func boolVal(t *Term) Val { return scalar(tBool, t) }
func intVal(t *Term) Val  { return scalar(tInt, t) }

// slice accessors
func (v Val) sBase() *Term { return v.Leaves[0] }
func (v Val) sOff() *Term  { return v.Leaves[1] }
func (v Val) sLen() *Term  { return v.Leaves[2] }
func (v Val) sCap() *Term  { return v.Leaves[3] }

func (e *Engine) zeroVal(t types.Type) Val {
	ls := e.layout(t)
	v := Val{Typ: t}
	for _, l := range ls {
		v.Leaves = append(v.Leaves, e.zeroLeaf(l))
	}
	return v
}

func (e *Engine) zeroLeaf(l Leaf) *Term {
	switch l.Sort {
	case "Bool":
		return TFalse
	case "Real":
		return A("0.0")
	case "Int":
		if l.Kind == "string" {
			return NumI(int64(e.strID("")))
		}
		return Zero
	}
	if l.Kind == "float" {
		return e.floatLit("0")
	}
	return Zero
}

func (e *Engine) floatLit(s string) *Term {
	if e.FloatSort == "Real" {
		// a literal denotes the float64 nearest to it, exactly as in Go source
		if f, _, err := big.ParseFloat(s, 10, 200, big.ToNearestEven); err == nil {
			if d, _ := f.Float64(); !math.IsInf(d, 0) {
				r := new(big.Rat)
				r.SetFloat64(d)
				return ratTerm(r)
			}
		}
		return realLit(s)
	}
	return A(fpLit(s))
}

// astLoops returns the for/range statements of fn in source order (excluding nested function literals).
func astLoops(fn *ssa.Function) []ast.Node {
	var body ast.Node
	switch s := fn.Syntax().(type) {
	case *ast.FuncDecl:
		body = s.Body
	case *ast.FuncLit:
		body = s.Body
	}
	var out []ast.Node
	if body == nil {
		return out
	}
	ast.Inspect(body, func(n ast.Node) bool {
		switch n.(type) {
		case *ast.FuncLit:
			return false
		case *ast.ForStmt, *ast.RangeStmt:
			out = append(out, n)
		}
		return true
	})
	return out
}
