package main

import (
	"fmt"
	"go/constant"
	"math"
	"math/big"
	"strings"
)

// realLit turns a decimal / scientific literal into an exact SMT Real term.
func realLit(s string) *Term {
	r, ok := new(big.Rat).SetString(s)
	if !ok {
		panic("bad real literal " + s)
	}
	return ratTerm(r)
}

func ratTerm(r *big.Rat) *Term {
	neg := r.Sign() < 0
	a := new(big.Rat).Abs(r)
	var t *Term
	if a.IsInt() {
		t = A(a.Num().String() + ".0")
	} else {
		t = App("/", A(a.Num().String()+".0"), A(a.Denom().String()+".0"))
	}
	if neg {
		return App("-", t)
	}
	return t
}

func fpLit(s string) string {
	f, _, err := big.ParseFloat(s, 10, 200, big.ToNearestEven)
	if err != nil {
		panic("bad fp literal " + s)
	}
	d, _ := f.Float64()
	return fpOfFloat64(d)
}

func fpOfFloat64(d float64) string {
	if math.IsNaN(d) {
		return "(_ NaN 11 53)"
	}
	if math.IsInf(d, 1) {
		return "(_ +oo 11 53)"
	}
	if math.IsInf(d, -1) {
		return "(_ -oo 11 53)"
	}
	bits := math.Float64bits(d)
	sign := bits >> 63
	exp := (bits >> 52) & 0x7ff
	man := bits & ((1 << 52) - 1)
	return fmt.Sprintf("(fp #b%b #b%011b #b%052b)", sign, exp, man)
}

// constFloat converts a Go constant to a float term in the current float sort.
func (e *Engine) constFloat(c constant.Value) *Term {
	if e.FloatSort == "Real" {
		switch v := constant.Val(constant.ToFloat(c)).(type) {
		case *big.Rat:
			return ratTerm(v)
		case *big.Float:
			r, _ := v.Rat(nil)
			if r == nil {
				return A("0.0")
			}
			return ratTerm(r)
		case int64:
			return ratTerm(new(big.Rat).SetInt64(v))
		case *big.Int:
			return ratTerm(new(big.Rat).SetInt(v))
		}
		f, _ := constant.Float64Val(c)
		r := new(big.Rat)
		r.SetFloat64(f)
		return ratTerm(r)
	}
	f, _ := constant.Float64Val(c)
	return A(fpOfFloat64(f))
}

func isRealSort(s string) bool { return s == "Real" }

func fpSortName() string { return "(_ FloatingPoint 11 53)" }

func trimFloat(s string) string { return strings.TrimSuffix(s, ".0") }
