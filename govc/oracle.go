package main

// Executable form of contracts: the ensures clauses of a function contract are
// translated to Go source and evaluated on the real function's inputs/outputs
// when a solver model is replayed. Clauses that use constructs with no
// executable meaning (uninterpreted functions, unbounded quantifiers, frames)
// are skipped and listed; a replay never "proves" anything, it only confirms a
// refutation on the real code.

import (
	"fmt"
	"go/types"
	"strings"

	"golang.org/x/tools/go/ssa"
)

type goTr struct {
	e        *Engine
	params   map[string]bool   // parameter names
	results  map[string]string // spec name -> go var
	bound    map[string]bool
	inOld    bool
	fpExact  bool              // fp mode: float equality is exact; real mode: tolerance
	subst    map[string]string // predicate parameters -> go expr
	depth    int
	pkg      *types.Package
	ptrBound map[string]bool
}

type notExec string

func nx(format string, args ...interface{}) { panic(notExec(fmt.Sprintf(format, args...))) }

var goUFuncs = map[string]string{"expF": "math.Exp", "tanhF": "math.Tanh", "sinF": "math.Sin", "powF": "math.Pow"}

func (t *goTr) tr(x *SExpr) string {
	switch x.Kind {
	case SNum, SFloat:
		return x.Lit
	case SBool:
		return x.Lit
	case SStr:
		return fmt.Sprintf("%q", x.Lit)
	case SNil:
		return "nil"
	case SIdent:
		if s, ok := t.subst[x.Name]; ok {
			return s
		}
		if t.bound[x.Name] {
			if t.inOld && t.ptrBound[x.Name] {
				return "verifOldObj(" + x.Name + ")"
			}
			return x.Name
		}
		if t.params[x.Name] {
			if t.inOld {
				return "old_" + x.Name
			}
			return "in_" + x.Name
		}
		if r, ok := t.results[x.Name]; ok {
			return r
		}
		if x.Name == "#idx" {
			nx("loop variable in a postcondition")
		}
		if _, isGhost := t.e.Ghosts[x.Name]; isGhost {
			nx("ghost variable %s", x.Name)
		}
		// package-level constant / variable of the function's package
		return x.Name
	case SOld:
		n := *t
		n.inOld = true
		return n.tr(x.Args[0])
	case SUnary:
		if x.Op == "!" {
			return "(!verifB(" + t.tr(x.Args[0]) + "))"
		}
		return "verifArith(\"-\", 0, " + t.tr(x.Args[0]) + ")"
	case SBinary:
		a, b := x.Args[0], x.Args[1]
		switch x.Op {
		case "==>":
			return "(!verifB(" + t.tr(a) + ") || verifB(" + t.tr(b) + "))"
		case "<==>":
			return "(verifB(" + t.tr(a) + ") == verifB(" + t.tr(b) + "))"
		case "&&", "||":
			return "(verifB(" + t.tr(a) + ") " + x.Op + " verifB(" + t.tr(b) + "))"
		case "<", "<=", ">", ">=":
			return "verifCmp(\"" + x.Op + "\", " + t.tr(a) + ", " + t.tr(b) + ")"
		case "+", "-", "*":
			return "verifArith(\"" + x.Op + "\", " + t.tr(a) + ", " + t.tr(b) + ")"
		case "==", "!=":
			neg := ""
			if x.Op == "!=" {
				neg = "!"
			}
			if a.Kind == SNil || b.Kind == SNil {
				return "(" + neg + "verifIsNil(" + t.tr(pick(a, b)) + "))"
			}
			tol := "true"
			if t.fpExact {
				tol = "false"
			}
			return "(" + neg + "verifEq(" + t.tr(a) + ", " + t.tr(b) + ", " + tol + "))"
		case "/":
			return "verifDiv(" + t.tr(a) + ", " + t.tr(b) + ")"
		case "%":
			return "verifMod(" + t.tr(a) + ", " + t.tr(b) + ")"
		}
		nx("operator %s", x.Op)
		return ""
	case SSel:
		if id := x.Args[0]; id.Kind == SIdent && !t.params[id.Name] && !t.bound[id.Name] && t.results[id.Name] == "" && t.subst[id.Name] == "" {
			if _, ok := pkgAliases[id.Name]; ok {
				nx("package-qualified name %s.%s", id.Name, x.Name)
			}
		}
		return "verifField(" + t.tr(x.Args[0]) + ", \"" + x.Name + "\")"
	case SIndex:
		if x.Args[0].Kind == SMem || (x.Args[0].Kind == SIndex && x.Args[0].Args[0].Kind == SMem) {
			nx("raw memory access")
		}
		return "verifIndex(" + t.tr(x.Args[0]) + ", " + t.tr(x.Args[1]) + ")"
	case SSlice:
		lo, hi := "nil", "nil"
		if x.Args[1] != nil {
			lo = t.tr(x.Args[1])
		}
		if x.Args[2] != nil {
			hi = t.tr(x.Args[2])
		}
		return "verifSlice(" + t.tr(x.Args[0]) + ", " + lo + ", " + hi + ")"
	case SCall:
		return t.call(x)
	case SQuant:
		return t.quant(x)
	}
	nx("construct %s", x)
	return ""
}

func pick(a, b *SExpr) *SExpr {
	if a.Kind == SNil {
		return b
	}
	return a
}

func (t *goTr) call(x *SExpr) string {
	arg := func(i int) string { return t.tr(x.Args[i]) }
	switch x.Name {
	case "len":
		return "verifLen(" + arg(0) + ")"
	case "cap":
		return "verifCap(" + arg(0) + ")"
	case "ite":
		return "verifIte(verifB(" + arg(0) + "), func() interface{} { return " + arg(1) + " }, func() interface{} { return " + arg(2) + " })"
	case "abs":
		return "verifAbs(" + arg(0) + ")"
	case "min":
		return "verifMin(" + arg(0) + ", " + arg(1) + ")"
	case "max":
		return "verifMax(" + arg(0) + ", " + arg(1) + ")"
	case "real":
		return "verifF(" + arg(0) + ")"
	case "floor":
		return "math.Floor(verifF(" + arg(0) + "))"
	case "floorInt":
		return "int(math.Floor(verifF(" + arg(0) + ")))"
	case "nan", "isNaN":
		return "math.IsNaN(verifF(" + arg(0) + "))"
	case "fin", "finite":
		return "verifFin(" + arg(0) + ")"
	case "isInf":
		return "math.IsInf(verifF(" + arg(0) + "), 0)"
	case "isNegative":
		return "math.Signbit(verifF(" + arg(0) + "))"
	case "posInf":
		return "math.Inf(1)"
	case "negInf":
		return "math.Inf(-1)"
	case "mapHas":
		return "verifMapHas(" + arg(0) + ", " + arg(1) + ")"
	case "isNilIface":
		return "verifIsNilIface(" + arg(0) + ")"
	case "sameSlice":
		return "verifSameSlice(" + arg(0) + ", " + arg(1) + ")"
	case "fresh":
		return "verifFresh(" + arg(0) + ")"
	case "typeIs", "asPtr":
		if len(x.Args) != 2 || x.Args[1].Kind != SStr {
			nx("%s(x, \"*T\")", x.Name)
		}
		if x.Name == "asPtr" {
			return arg(0)
		}
		toks, err := lexSpec(x.Args[1].Lit)
		if err != nil {
			nx("%v", err)
		}
		sp := &sparser{toks: toks, src: x.Args[1].Lit}
		te, err := sp.typeExpr()
		if err != nil {
			nx("%v", err)
		}
		sc := &Scope{vc: &VC{e: t.e}, pkg: t.pkg}
		var ty types.Type
		func() {
			defer func() {
				if r := recover(); r != nil {
					nx("unknown type %s", te)
				}
			}()
			ty = sc.resolveType(te)
		}()
		tn := types.TypeString(ty, func(p *types.Package) string { return p.Name() })
		return "verifTypeIs(" + arg(0) + ", " + fmt.Sprintf("%q", tn) + ")"
	case "base", "off", "ms", "arrOf", "allocated", "wasAllocated", "preserved", "unchanged", "ifaceVal":
		nx("%s() has no executable meaning", x.Name)
	}
	if g, ok := goUFuncs[x.Name]; ok {
		var as []string
		for i := range x.Args {
			as = append(as, "verifF("+arg(i)+")")
		}
		return g + "(" + strings.Join(as, ", ") + ")"
	}
	if pd, ok := t.e.Preds[x.Name]; ok {
		if t.depth > 8 {
			nx("predicate nesting too deep")
		}
		n := *t
		n.depth++
		n.subst = map[string]string{}
		n.bound = map[string]bool{}
		n.params = map[string]bool{}
		n.results = map[string]string{}
		n.ptrBound = map[string]bool{}
		if pd.Pkg != "" {
			if p := t.e.Pkgs[pd.Pkg]; p != nil {
				n.pkg = p.Types
			}
		}
		var binds []string
		for i, p := range pd.Params {
			v := fmt.Sprintf("p%d_%s", t.depth, p.Name)
			n.subst[p.Name] = v
			binds = append(binds, "var "+v+" interface{} = "+arg(i)+"; _ = "+v)
		}
		body := n.tr(pd.Body)
		return "func() interface{} { " + strings.Join(binds, "; ") + "; return " + body + " }()"
	}
	nx("uninterpreted function %s", x.Name)
	return ""
}

// bounds collects executable integer bounds for the bound variables of a quantifier guard.
func guardConjuncts(x *SExpr, out *[]*SExpr) {
	if x.Kind == SBinary && x.Op == "&&" {
		guardConjuncts(x.Args[0], out)
		guardConjuncts(x.Args[1], out)
		return
	}
	*out = append(*out, x)
}

func (t *goTr) quant(x *SExpr) string {
	body := x.Args[0]
	var guard *SExpr
	if x.Op == "forall" {
		if body.Kind == SBinary && body.Op == "==>" {
			guard = body.Args[0]
		}
	} else {
		guard = body
	}
	if guard == nil {
		nx("quantifier without a range guard")
	}
	names := map[string]bool{}
	if len(x.Binders) == 1 && x.Binders[0].Type != nil && x.Binders[0].Type.Ptr == 1 && !x.Binders[0].Type.Slice {
		// quantifier over all objects of a pointer type: ranges over the objects known to the replay
		b := x.Binders[0]
		sc := &Scope{vc: &VC{e: t.e}, pkg: t.pkg}
		var ty types.Type
		func() {
			defer func() {
				if r := recover(); r != nil {
					nx("unknown type %s", b.Type)
				}
			}()
			ty = sc.resolveType(b.Type)
		}()
		tn := types.TypeString(ty, func(p *types.Package) string { return p.Name() })
		n := *t
		n.bound = map[string]bool{}
		n.ptrBound = map[string]bool{}
		for k := range t.bound {
			n.bound[k] = true
		}
		for k := range t.ptrBound {
			n.ptrBound[k] = true
		}
		n.bound[b.Name] = true
		n.ptrBound[b.Name] = true
		inner := n.tr(x.Args[0])
		if x.Op == "forall" {
			return "func() bool { for _, " + b.Name + " := range verifObjectsOf(" + fmt.Sprintf("%q", tn) + ") { if !verifB(" + inner + ") { return false } }; return true }()"
		}
		return "func() bool { for _, " + b.Name + " := range verifObjectsOf(" + fmt.Sprintf("%q", tn) + ") { if verifB(" + inner + ") { return true } }; return false }()"
	}
	for _, b := range x.Binders {
		if b.Type != nil && b.Type.Name != "int" {
			nx("quantifier over %s", b.Type)
		}
		names[b.Name] = true
	}
	var cs []*SExpr
	guardConjuncts(guard, &cs)
	n := *t
	n.bound = map[string]bool{}
	for k := range t.bound {
		n.bound[k] = true
	}
	var los, his []string
	for _, c := range cs {
		if c.Kind != SBinary {
			continue
		}
		a, b := c.Args[0], c.Args[1]
		isVar := func(e *SExpr) bool { return e.Kind == SIdent && names[e.Name] }
		switch c.Op {
		case "<=", "<":
			if isVar(b) && !mentions(a, names) { // a <= v
				los = append(los, t.tr(a))
			}
			if isVar(a) && !mentions(b, names) { // v <= b
				his = append(his, t.tr(b))
			}
		case ">=", ">":
			if isVar(a) && !mentions(b, names) { // v >= b
				los = append(los, t.tr(b))
			}
			if isVar(b) && !mentions(a, names) { // a >= v
				his = append(his, t.tr(a))
			}
		}
	}
	if len(los) == 0 || len(his) == 0 {
		nx("quantifier %s has no executable bounds", x)
	}
	for k := range names {
		n.bound[k] = true
	}
	lo := "verifMinI(" + strings.Join(los, ", ") + ")"
	hi := "verifMaxI(" + strings.Join(his, ", ") + ")"
	inner := n.tr(body)
	var sb strings.Builder
	sb.WriteString("func() bool { lo, hi := " + lo + ", " + hi + "; _, _ = lo, hi; ")
	for _, b := range x.Binders {
		sb.WriteString("for " + b.Name + " := lo; " + b.Name + " <= hi; " + b.Name + "++ { ")
	}
	if x.Op == "forall" {
		sb.WriteString("if !verifB(" + inner + ") { return false }")
	} else {
		sb.WriteString("if verifB(" + inner + ") { return true }")
	}
	for range x.Binders {
		sb.WriteString(" }")
	}
	if x.Op == "forall" {
		sb.WriteString("; return true }()")
	} else {
		sb.WriteString("; return false }()")
	}
	return sb.String()
}

// goOracle renders the ensures clauses of fc as a Go function body that appends the
// labels of violated clauses to `fails`. Returns the statements and the skipped clauses.
func (e *Engine) goOracle(fc *FuncContract, fn *ssa.Function) (stmts string, checked int, skipped []string) {
	return e.goClauses(fc, fn, false)
}

// goRequires renders the executable requires clauses (checked on the materialised input before the call).
func (e *Engine) goRequires(fc *FuncContract, fn *ssa.Function) (stmts string, checked int, skipped []string) {
	return e.goClauses(fc, fn, true)
}

func (e *Engine) goClauses(fc *FuncContract, fn *ssa.Function, pre bool) (stmts string, checked int, skipped []string) {
	if fc == nil {
		return "", 0, nil
	}
	var sb strings.Builder
	clauses := fc.Ensures
	kind := "ensures"
	if pre {
		clauses = fc.Requires
		kind = "requires"
	}
	for i, en := range clauses {
		label := clauseLabel(en, i)
		if en.Local {
			skipped = append(skipped, label+": mentions local variables of the function")
			continue
		}
		src, err := func() (s string, err error) {
			defer func() {
				if r := recover(); r != nil {
					if m, ok := r.(notExec); ok {
						err = fmt.Errorf("%s", string(m))
						return
					}
					panic(r)
				}
			}()
			t := &goTr{e: e, params: map[string]bool{}, results: map[string]string{}, bound: map[string]bool{}, fpExact: fc.Mode == "fp", subst: map[string]string{}, pkg: fn.Pkg.Pkg, ptrBound: map[string]bool{}}
			for _, p := range fn.Params {
				t.params[p.Name()] = true
			}
			rs := fn.Signature.Results()
			if rs.Len() == 1 {
				t.results["result"] = "r0"
			}
			for k := 0; k < rs.Len(); k++ {
				t.results[fmt.Sprintf("result%d", k)] = fmt.Sprintf("r%d", k)
				if n := rs.At(k).Name(); n != "" && n != "_" && !t.params[n] {
					t.results[n] = fmt.Sprintf("r%d", k)
				}
			}
			return t.tr(en.Expr), nil
		}()
		if err != nil {
			skipped = append(skipped, label+": "+err.Error())
			continue
		}
		checked++
		fmt.Fprintf(&sb, "\tif !verifB(%s) {\n\t\tfails = append(fails, %q)\n\t}\n", src, kind+" ["+label+"] "+en.Src)
	}
	return sb.String(), checked, skipped
}

// oraclePrelude is the helper code shared by generated replay tests.
const oraclePrelude = `
func verifB(x interface{}) bool {
	b, ok := x.(bool)
	if !ok {
		panic("verif: boolean expected in a contract")
	}
	return b
}

func verifNum(x interface{}) (float64, bool) {
	v := reflect.ValueOf(x)
	switch v.Kind() {
	case reflect.Int, reflect.Int8, reflect.Int16, reflect.Int32, reflect.Int64:
		return float64(v.Int()), true
	case reflect.Uint, reflect.Uint8, reflect.Uint16, reflect.Uint32, reflect.Uint64:
		return float64(v.Uint()), true
	case reflect.Float32, reflect.Float64:
		return v.Float(), true
	}
	return 0, false
}

func verifF(x interface{}) float64 { f, _ := verifNum(x); return f }

func verifFin(x interface{}) bool { f := verifF(x); return !math.IsNaN(f) && !math.IsInf(f, 0) }

func verifIsFloat(x interface{}) bool {
	k := reflect.ValueOf(x).Kind()
	return k == reflect.Float32 || k == reflect.Float64
}

// verifEq: numeric values compare by value (floats with a relative tolerance in real mode,
// exactly in IEEE mode); pointers compare by identity modulo the old-state snapshot.
func verifEq(a, b interface{}, tol bool) bool {
	fa, oka := verifNum(a)
	fb, okb := verifNum(b)
	if oka && okb {
		if fa == fb {
			return true
		}
		if tol && (verifIsFloat(a) || verifIsFloat(b)) {
			m := math.Max(1, math.Max(math.Abs(fa), math.Abs(fb)))
			return math.Abs(fa-fb) <= 1e-9*m
		}
		return false
	}
	va, vb := reflect.ValueOf(a), reflect.ValueOf(b)
	if va.IsValid() && vb.IsValid() && va.Kind() == reflect.Ptr && vb.Kind() == reflect.Ptr {
		return verifCanon(va.Pointer()) == verifCanon(vb.Pointer())
	}
	if va.IsValid() && vb.IsValid() && va.Kind() == reflect.Slice && vb.Kind() == reflect.Slice {
		return va.Pointer() == vb.Pointer() && va.Len() == vb.Len()
	}
	return reflect.DeepEqual(a, b)
}

func verifIsNil(x interface{}) bool {
	if x == nil {
		return true
	}
	v := reflect.ValueOf(x)
	switch v.Kind() {
	case reflect.Ptr, reflect.Slice, reflect.Map, reflect.Func, reflect.Chan:
		return v.IsNil()
	}
	return false
}

func verifIte(c bool, a, b func() interface{}) interface{} {
	if c {
		return a()
	}
	return b()
}

func verifAbs(x interface{}) interface{} {
	if verifIsFloat(x) {
		return math.Abs(verifF(x))
	}
	f := verifF(x)
	if f < 0 {
		return int64(-f)
	}
	return int64(f)
}

func verifMin(a, b interface{}) interface{} {
	if verifF(a) <= verifF(b) {
		return a
	}
	return b
}

func verifMax(a, b interface{}) interface{} {
	if verifF(a) >= verifF(b) {
		return a
	}
	return b
}

func verifMinI(xs ...interface{}) int {
	m := math.MaxInt32
	for _, x := range xs {
		if v := int(verifF(x)); v < m {
			m = v
		}
	}
	return m
}

func verifMaxI(xs ...interface{}) int {
	m := math.MinInt32
	for _, x := range xs {
		if v := int(verifF(x)); v > m {
			m = v
		}
	}
	return m
}

func verifDiv(a, b interface{}) interface{} {
	if verifIsFloat(a) || verifIsFloat(b) {
		return verifF(a) / verifF(b)
	}
	x, y := int64(verifF(a)), int64(verifF(b))
	if y == 0 {
		return int64(0)
	}
	q := x / y
	if (x%y != 0) && ((x < 0) != (y < 0)) {
		q--
	}
	return q
}

func verifMod(a, b interface{}) interface{} {
	x, y := int64(verifF(a)), int64(verifF(b))
	if y == 0 {
		return int64(0)
	}
	m := x % y
	if m < 0 {
		if y > 0 {
			m += y
		} else {
			m -= y
		}
	}
	return m
}

func verifIsNilIface(x interface{}) bool { return x == nil }

func verifTypeIs(x interface{}, typ string) bool { return x != nil && reflect.TypeOf(x).String() == typ }

func verifCmp(op string, a, b interface{}) bool {
	x, y := verifF(a), verifF(b)
	switch op {
	case "<":
		return x < y
	case "<=":
		return x <= y
	case ">":
		return x > y
	}
	return x >= y
}

func verifArith(op string, a, b interface{}) interface{} {
	if verifIsFloat(a) || verifIsFloat(b) {
		x, y := verifF(a), verifF(b)
		switch op {
		case "+":
			return x + y
		case "-":
			return x - y
		}
		return x * y
	}
	x, y := int64(verifF(a)), int64(verifF(b))
	switch op {
	case "+":
		return x + y
	case "-":
		return x - y
	}
	return x * y
}

func verifDeref(v reflect.Value) reflect.Value {
	for v.IsValid() && (v.Kind() == reflect.Ptr || v.Kind() == reflect.Interface) {
		if v.IsNil() {
			panic("verif: nil dereference while evaluating a contract")
		}
		v = v.Elem()
	}
	return v
}

func verifField(x interface{}, name string) interface{} {
	v := verifDeref(reflect.ValueOf(x))
	if v.Kind() != reflect.Struct {
		panic("verif: field " + name + " of non-struct")
	}
	if !v.CanAddr() {
		n := reflect.New(v.Type()).Elem()
		n.Set(v)
		v = n
	}
	f := v.FieldByName(name)
	if !f.IsValid() {
		panic("verif: no field " + name)
	}
	return verifReadable(f).Interface()
}

func verifIndex(x, i interface{}) interface{} {
	v := reflect.ValueOf(x)
	if v.Kind() == reflect.Map {
		kv := reflect.ValueOf(i)
		if kv.Type() != v.Type().Key() {
			kv = kv.Convert(v.Type().Key())
		}
		r := v.MapIndex(kv)
		if !r.IsValid() {
			return reflect.Zero(v.Type().Elem()).Interface()
		}
		return r.Interface()
	}
	return v.Index(int(verifF(i))).Interface()
}

func verifSlice(x, lo, hi interface{}) interface{} {
	v := reflect.ValueOf(x)
	l, h := 0, v.Len()
	if lo != nil {
		l = int(verifF(lo))
	}
	if hi != nil {
		h = int(verifF(hi))
	}
	return v.Slice(l, h).Interface()
}

func verifLen(x interface{}) int {
	v := reflect.ValueOf(x)
	if !v.IsValid() {
		return 0
	}
	return v.Len()
}

func verifCap(x interface{}) int {
	v := reflect.ValueOf(x)
	if !v.IsValid() {
		return 0
	}
	return v.Cap()
}

func verifMapHas(m, k interface{}) bool {
	v := reflect.ValueOf(m)
	if v.Kind() != reflect.Map || v.IsNil() {
		return false
	}
	kv := reflect.ValueOf(k)
	if kv.Type() != v.Type().Key() {
		if !kv.Type().ConvertibleTo(v.Type().Key()) {
			return false
		}
		kv = kv.Convert(v.Type().Key())
	}
	return v.MapIndex(kv).IsValid()
}

func verifSameSlice(a, b interface{}) bool {
	va, vb := reflect.ValueOf(a), reflect.ValueOf(b)
	return va.Pointer() == vb.Pointer() && va.Len() == vb.Len() && va.Cap() == vb.Cap()
}

// ---- old-state snapshot: a deep copy that preserves aliasing; copies are mapped back to the
// ---- originals so that pointer equalities between old and new state keep their meaning.
var verifCopyOf = map[uintptr]uintptr{} // original -> copy
var verifOrigOf = map[uintptr]uintptr{} // copy -> original
var verifKeep []interface{}
var verifPreExisting = map[uintptr]bool{}

var verifByType = map[string][]interface{}{}
var verifSeenObj = map[uintptr]bool{}

func verifObjectsOf(typ string) []interface{} { return verifByType[typ] }

func verifNote(v reflect.Value) {
	if v.Kind() != reflect.Ptr || v.IsNil() || verifSeenObj[v.Pointer()] {
		return
	}
	if _, isCopy := verifOrigOf[v.Pointer()]; isCopy {
		return
	}
	verifSeenObj[v.Pointer()] = true
	verifByType[v.Type().String()] = append(verifByType[v.Type().String()], v.Interface())
}

// verifRegister walks a value and records every reachable pointer for quantifiers over object types.
func verifRegister(x interface{}) {
	if x == nil {
		return
	}
	verifWalk(reflect.ValueOf(x), map[uintptr]bool{})
}

func verifWalk(v reflect.Value, seen map[uintptr]bool) {
	v = verifReadable(v)
	switch v.Kind() {
	case reflect.Ptr:
		if v.IsNil() || seen[v.Pointer()] {
			return
		}
		seen[v.Pointer()] = true
		if v.Type().Elem().Kind() == reflect.Struct {
			verifNote(v)
		}
		verifWalk(v.Elem(), seen)
	case reflect.Interface:
		if !v.IsNil() {
			verifWalk(v.Elem(), seen)
		}
	case reflect.Slice, reflect.Array:
		for i := 0; i < v.Len(); i++ {
			verifWalk(v.Index(i), seen)
		}
	case reflect.Struct:
		if !v.CanAddr() {
			n := reflect.New(v.Type()).Elem()
			n.Set(v)
			v = n
		}
		for i := 0; i < v.NumField(); i++ {
			verifWalk(v.Field(i), seen)
		}
	case reflect.Map:
		it := v.MapRange()
		for it.Next() {
			verifWalk(it.Value(), seen)
		}
	}
}

// verifOldObj maps an object to its pre-state snapshot (objects created later have none).
func verifOldObj(x interface{}) interface{} {
	v := reflect.ValueOf(x)
	if v.Kind() != reflect.Ptr || v.IsNil() {
		return x
	}
	if c, ok := verifCopyOf[v.Pointer()]; ok {
		return reflect.NewAt(v.Type().Elem(), unsafe.Pointer(c)).Interface()
	}
	return x
}

func verifCanon(p uintptr) uintptr {
	if o, ok := verifOrigOf[p]; ok {
		return o
	}
	return p
}

func verifFresh(x interface{}) bool {
	v := reflect.ValueOf(x)
	switch v.Kind() {
	case reflect.Ptr:
		return !v.IsNil() && !verifPreExisting[v.Pointer()]
	case reflect.Slice:
		return v.IsNil() || v.Cap() == 0 || !verifPreExisting[v.Pointer()]
	}
	return false
}

func verifSnapshot(x interface{}) interface{} {
	if x == nil {
		return nil
	}
	v := reflect.ValueOf(x)
	out := reflect.New(v.Type()).Elem()
	verifCopyInto(out, v)
	return out.Interface()
}

func verifSettable(v reflect.Value) reflect.Value {
	if v.CanSet() {
		return v
	}
	if v.CanAddr() {
		return reflect.NewAt(v.Type(), unsafe.Pointer(v.UnsafeAddr())).Elem()
	}
	return v
}

func verifReadable(v reflect.Value) reflect.Value {
	if v.CanInterface() {
		return v
	}
	if v.CanAddr() {
		return reflect.NewAt(v.Type(), unsafe.Pointer(v.UnsafeAddr())).Elem()
	}
	return v
}

func verifCopyInto(dst, src reflect.Value) {
	dst = verifSettable(dst)
	src = verifReadable(src)
	switch src.Kind() {
	case reflect.Ptr:
		if src.IsNil() {
			return
		}
		verifPreExisting[src.Pointer()] = true
		if c, ok := verifCopyOf[src.Pointer()]; ok {
			dst.Set(reflect.NewAt(src.Type().Elem(), unsafe.Pointer(c)))
			return
		}
		n := reflect.New(src.Type().Elem())
		verifCopyOf[src.Pointer()] = n.Pointer()
		verifOrigOf[n.Pointer()] = src.Pointer()
		verifKeep = append(verifKeep, n.Interface())
		verifCopyInto(n.Elem(), src.Elem())
		dst.Set(n)
	case reflect.Slice:
		if src.IsNil() {
			return
		}
		if src.Cap() > 0 {
			verifPreExisting[src.Pointer()] = true
		}
		n := reflect.MakeSlice(src.Type(), src.Len(), src.Len())
		for i := 0; i < src.Len(); i++ {
			verifCopyInto(n.Index(i), src.Index(i))
		}
		dst.Set(n)
	case reflect.Map:
		if src.IsNil() {
			return
		}
		verifPreExisting[src.Pointer()] = true
		n := reflect.MakeMapWithSize(src.Type(), src.Len())
		it := src.MapRange()
		for it.Next() {
			kv := reflect.New(src.Type().Key()).Elem()
			verifCopyInto(kv, it.Key())
			vv := reflect.New(src.Type().Elem()).Elem()
			verifCopyInto(vv, it.Value())
			n.SetMapIndex(kv, vv)
		}
		dst.Set(n)
	case reflect.Struct:
		for i := 0; i < src.NumField(); i++ {
			verifCopyInto(dst.Field(i), src.Field(i))
		}
	case reflect.Array:
		for i := 0; i < src.Len(); i++ {
			verifCopyInto(dst.Index(i), src.Index(i))
		}
	case reflect.Interface:
		if src.IsNil() {
			return
		}
		inner := reflect.New(src.Elem().Type()).Elem()
		verifCopyInto(inner, src.Elem())
		dst.Set(inner)
	case reflect.Func, reflect.Chan, reflect.UnsafePointer:
		dst.Set(src)
	default:
		dst.Set(src)
	}
}
`

var _ = types.Typ
