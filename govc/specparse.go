package main

// Parser for the contract language kept in `//@` comment lines.

import (
	"fmt"
	"os"
	"strings"
	"unicode"
)

type SKind int

const (
	SIdent SKind = iota
	SNum         // integer literal
	SFloat       // float literal
	SStr
	SBool
	SNil
	SUnary  // Op, Args[0]
	SBinary // Op, Args[0..1]
	SSel    // Args[0].Name
	SIndex  // Args[0][Args[1]]
	SSlice  // Args[0][Args[1]:Args[2]] (nil allowed)
	SCall   // Name(Args...) or Args[0] is receiver for method calls (Recv)
	SQuant  // Op forall/exists, Binders, Args[0]
	SOld    // old(Args[0])
	SMem    // Mem[Type]
)

type TypeExpr struct {
	Ptr   int    // number of leading *
	Slice bool   // []T
	Pkg   string // optional qualifier
	Name  string
	Elem  *TypeExpr // for slice
}

func (t *TypeExpr) String() string {
	if t == nil {
		return "int"
	}
	s := strings.Repeat("*", t.Ptr)
	if t.Slice {
		return s + "[]" + t.Elem.String()
	}
	if t.Pkg != "" {
		return s + t.Pkg + "." + t.Name
	}
	return s + t.Name
}

type Binder struct {
	Name string
	Type *TypeExpr // nil => int
}

type SExpr struct {
	Kind    SKind
	Op      string
	Name    string
	Lit     string
	Args    []*SExpr
	Recv    *SExpr
	Binders []Binder
	Type    *TypeExpr
	Pos     int
}

func (e *SExpr) String() string {
	if e == nil {
		return ""
	}
	switch e.Kind {
	case SIdent:
		return e.Name
	case SNum, SFloat, SBool:
		return e.Lit
	case SStr:
		return fmt.Sprintf("%q", e.Lit)
	case SNil:
		return "nil"
	case SUnary:
		return e.Op + e.Args[0].String()
	case SBinary:
		return "(" + e.Args[0].String() + " " + e.Op + " " + e.Args[1].String() + ")"
	case SSel:
		return e.Args[0].String() + "." + e.Name
	case SIndex:
		return e.Args[0].String() + "[" + e.Args[1].String() + "]"
	case SSlice:
		return e.Args[0].String() + "[" + e.Args[1].String() + ":" + e.Args[2].String() + "]"
	case SCall:
		var as []string
		for _, a := range e.Args {
			as = append(as, a.String())
		}
		r := ""
		if e.Recv != nil {
			r = e.Recv.String() + "."
		}
		return r + e.Name + "(" + strings.Join(as, ", ") + ")"
	case SQuant:
		var bs []string
		for _, b := range e.Binders {
			if b.Type != nil {
				bs = append(bs, b.Name+" "+b.Type.String())
			} else {
				bs = append(bs, b.Name)
			}
		}
		return "(" + e.Op + " " + strings.Join(bs, ", ") + " :: " + e.Args[0].String() + ")"
	case SOld:
		return "old(" + e.Args[0].String() + ")"
	case SMem:
		return "Mem[" + e.Type.String() + "]"
	}
	return "?"
}

type tok struct {
	k   string // "id","num","float","str","op","eof"
	s   string
	pos int
}

func lexSpec(src string) ([]tok, error) {
	var toks []tok
	i := 0
	for i < len(src) {
		c := src[i]
		switch {
		case c == ' ' || c == '\t' || c == '\n' || c == '\r':
			i++
		case unicode.IsLetter(rune(c)) || c == '_' || c == '$' || c == '#':
			j := i + 1
			for j < len(src) && (unicode.IsLetter(rune(src[j])) || unicode.IsDigit(rune(src[j])) || src[j] == '_' || src[j] == '$' || src[j] == '#') {
				j++
			}
			toks = append(toks, tok{"id", src[i:j], i})
			i = j
		case c >= '0' && c <= '9':
			j := i
			isF := false
			for j < len(src) && (src[j] >= '0' && src[j] <= '9') {
				j++
			}
			if j < len(src) && src[j] == '.' && j+1 < len(src) && src[j+1] >= '0' && src[j+1] <= '9' {
				isF = true
				j++
				for j < len(src) && (src[j] >= '0' && src[j] <= '9') {
					j++
				}
			}
			if j < len(src) && (src[j] == 'e' || src[j] == 'E') {
				k := j + 1
				if k < len(src) && (src[k] == '+' || src[k] == '-') {
					k++
				}
				if k < len(src) && src[k] >= '0' && src[k] <= '9' {
					isF = true
					for k < len(src) && src[k] >= '0' && src[k] <= '9' {
						k++
					}
					j = k
				}
			}
			if isF {
				toks = append(toks, tok{"float", src[i:j], i})
			} else {
				toks = append(toks, tok{"num", src[i:j], i})
			}
			i = j
		case c == '"':
			j := i + 1
			for j < len(src) && src[j] != '"' {
				if src[j] == '\\' {
					j++
				}
				j++
			}
			if j >= len(src) {
				return nil, fmt.Errorf("unterminated string at %d", i)
			}
			toks = append(toks, tok{"str", src[i+1 : j], i})
			i = j + 1
		default:
			ops := []string{"<==>", "==>", "::", "==", "!=", "<=", ">=", "&&", "||", "+", "-", "*", "/", "%", "<", ">", "!", "(", ")", "[", "]", ",", ".", ":", "?"}
			matched := false
			for _, op := range ops {
				if strings.HasPrefix(src[i:], op) {
					toks = append(toks, tok{"op", op, i})
					i += len(op)
					matched = true
					break
				}
			}
			if !matched {
				return nil, fmt.Errorf("unexpected character %q at %d in %q", c, i, src)
			}
		}
	}
	toks = append(toks, tok{"eof", "", len(src)})
	return toks, nil
}

type sparser struct {
	toks []tok
	p    int
	src  string
}

func (p *sparser) peek() tok { return p.toks[p.p] }
func (p *sparser) next() tok { t := p.toks[p.p]; p.p++; return t }
func (p *sparser) isOp(s string) bool {
	t := p.peek()
	return t.k == "op" && t.s == s
}
func (p *sparser) accept(s string) bool {
	if p.isOp(s) {
		p.p++
		return true
	}
	return false
}
func (p *sparser) expect(s string) error {
	if !p.accept(s) {
		return fmt.Errorf("expected %q at %d, got %q in %q", s, p.peek().pos, p.peek().s, p.src)
	}
	return nil
}

func ParseSpecExpr(src string) (*SExpr, error) {
	toks, err := lexSpec(src)
	if err != nil {
		return nil, err
	}
	p := &sparser{toks: toks, src: src}
	e, err := p.expr()
	if err != nil {
		return nil, err
	}
	if p.peek().k != "eof" {
		return nil, fmt.Errorf("trailing input at %d (%q) in %q", p.peek().pos, p.peek().s, src)
	}
	return e, nil
}

func (p *sparser) expr() (*SExpr, error) {
	t := p.peek()
	if t.k == "id" && (t.s == "forall" || t.s == "exists") {
		p.next()
		var bs []Binder
		for {
			n := p.next()
			if n.k != "id" {
				return nil, fmt.Errorf("binder name expected at %d in %q", n.pos, p.src)
			}
			b := Binder{Name: n.s}
			if !p.isOp(",") && !p.isOp("::") {
				ty, err := p.typeExpr()
				if err != nil {
					return nil, err
				}
				b.Type = ty
			}
			bs = append(bs, b)
			if p.accept(",") {
				continue
			}
			break
		}
		if err := p.expect("::"); err != nil {
			return nil, err
		}
		body, err := p.expr()
		if err != nil {
			return nil, err
		}
		return &SExpr{Kind: SQuant, Op: t.s, Binders: bs, Args: []*SExpr{body}, Pos: t.pos}, nil
	}
	return p.iff()
}

func (p *sparser) typeExpr() (*TypeExpr, error) {
	te := &TypeExpr{}
	for p.accept("*") {
		te.Ptr++
	}
	if p.accept("[") {
		if err := p.expect("]"); err != nil {
			return nil, err
		}
		el, err := p.typeExpr()
		if err != nil {
			return nil, err
		}
		te.Slice = true
		te.Elem = el
		return te, nil
	}
	n := p.next()
	if n.k != "id" {
		return nil, fmt.Errorf("type name expected at %d in %q", n.pos, p.src)
	}
	te.Name = n.s
	if p.accept(".") {
		m := p.next()
		if m.k != "id" {
			return nil, fmt.Errorf("type name expected at %d in %q", m.pos, p.src)
		}
		te.Pkg = te.Name
		te.Name = m.s
	}
	return te, nil
}

func (p *sparser) iff() (*SExpr, error) {
	l, err := p.imp()
	if err != nil {
		return nil, err
	}
	for p.isOp("<==>") {
		t := p.next()
		r, err := p.imp()
		if err != nil {
			return nil, err
		}
		l = &SExpr{Kind: SBinary, Op: "<==>", Args: []*SExpr{l, r}, Pos: t.pos}
	}
	return l, nil
}

func (p *sparser) imp() (*SExpr, error) {
	l, err := p.cond()
	if err != nil {
		return nil, err
	}
	if p.isOp("==>") {
		t := p.next()
		// right associative; the right side may be a quantifier
		r, err := p.impRhs()
		if err != nil {
			return nil, err
		}
		return &SExpr{Kind: SBinary, Op: "==>", Args: []*SExpr{l, r}, Pos: t.pos}, nil
	}
	return l, nil
}

func (p *sparser) impRhs() (*SExpr, error) {
	t := p.peek()
	if t.k == "id" && (t.s == "forall" || t.s == "exists") {
		return p.expr()
	}
	return p.imp()
}

// cond ? a : b
func (p *sparser) cond() (*SExpr, error) {
	c, err := p.or()
	if err != nil {
		return nil, err
	}
	if p.isOp("?") {
		t := p.next()
		a, err := p.cond()
		if err != nil {
			return nil, err
		}
		if err := p.expect(":"); err != nil {
			return nil, err
		}
		b, err := p.cond()
		if err != nil {
			return nil, err
		}
		return &SExpr{Kind: SCall, Name: "ite", Args: []*SExpr{c, a, b}, Pos: t.pos}, nil
	}
	return c, nil
}

func (p *sparser) or() (*SExpr, error) {
	l, err := p.and()
	if err != nil {
		return nil, err
	}
	for p.isOp("||") {
		t := p.next()
		var r *SExpr
		if pk := p.peek(); pk.k == "id" && (pk.s == "forall" || pk.s == "exists") {
			r, err = p.expr()
		} else {
			r, err = p.and()
		}
		if err != nil {
			return nil, err
		}
		l = &SExpr{Kind: SBinary, Op: "||", Args: []*SExpr{l, r}, Pos: t.pos}
	}
	return l, nil
}

func (p *sparser) and() (*SExpr, error) {
	l, err := p.cmp()
	if err != nil {
		return nil, err
	}
	for p.isOp("&&") {
		t := p.next()
		var r *SExpr
		// allow a quantifier as the last conjunct
		if pk := p.peek(); pk.k == "id" && (pk.s == "forall" || pk.s == "exists") {
			r, err = p.expr()
		} else {
			r, err = p.cmp()
		}
		if err != nil {
			return nil, err
		}
		l = &SExpr{Kind: SBinary, Op: "&&", Args: []*SExpr{l, r}, Pos: t.pos}
	}
	return l, nil
}

func (p *sparser) cmp() (*SExpr, error) {
	l, err := p.add()
	if err != nil {
		return nil, err
	}
	for _, op := range []string{"==", "!=", "<=", ">=", "<", ">"} {
		if p.isOp(op) {
			t := p.next()
			r, err := p.add()
			if err != nil {
				return nil, err
			}
			return &SExpr{Kind: SBinary, Op: op, Args: []*SExpr{l, r}, Pos: t.pos}, nil
		}
	}
	return l, nil
}

func (p *sparser) add() (*SExpr, error) {
	l, err := p.mul()
	if err != nil {
		return nil, err
	}
	for p.isOp("+") || p.isOp("-") {
		t := p.next()
		r, err := p.mul()
		if err != nil {
			return nil, err
		}
		l = &SExpr{Kind: SBinary, Op: t.s, Args: []*SExpr{l, r}, Pos: t.pos}
	}
	return l, nil
}

func (p *sparser) mul() (*SExpr, error) {
	l, err := p.unary()
	if err != nil {
		return nil, err
	}
	for p.isOp("*") || p.isOp("/") || p.isOp("%") {
		t := p.next()
		r, err := p.unary()
		if err != nil {
			return nil, err
		}
		l = &SExpr{Kind: SBinary, Op: t.s, Args: []*SExpr{l, r}, Pos: t.pos}
	}
	return l, nil
}

func (p *sparser) unary() (*SExpr, error) {
	if p.isOp("!") || p.isOp("-") {
		t := p.next()
		a, err := p.unary()
		if err != nil {
			return nil, err
		}
		return &SExpr{Kind: SUnary, Op: t.s, Args: []*SExpr{a}, Pos: t.pos}, nil
	}
	return p.postfix()
}

func (p *sparser) postfix() (*SExpr, error) {
	e, err := p.primary()
	if err != nil {
		return nil, err
	}
	for {
		switch {
		case p.isOp("."):
			p.next()
			n := p.next()
			if n.k != "id" {
				return nil, fmt.Errorf("field name expected at %d in %q", n.pos, p.src)
			}
			if p.isOp("(") {
				args, err := p.args()
				if err != nil {
					return nil, err
				}
				e = &SExpr{Kind: SCall, Name: n.s, Recv: e, Args: args, Pos: n.pos}
			} else {
				e = &SExpr{Kind: SSel, Name: n.s, Args: []*SExpr{e}, Pos: n.pos}
			}
		case p.isOp("["):
			t := p.next()
			var lo, hi *SExpr
			if !p.isOp(":") {
				lo, err = p.expr()
				if err != nil {
					return nil, err
				}
			}
			if p.accept(":") {
				if !p.isOp("]") {
					hi, err = p.expr()
					if err != nil {
						return nil, err
					}
				}
				if err := p.expect("]"); err != nil {
					return nil, err
				}
				e = &SExpr{Kind: SSlice, Args: []*SExpr{e, lo, hi}, Pos: t.pos}
			} else {
				if err := p.expect("]"); err != nil {
					return nil, err
				}
				e = &SExpr{Kind: SIndex, Args: []*SExpr{e, lo}, Pos: t.pos}
			}
		default:
			return e, nil
		}
	}
}

func (p *sparser) args() ([]*SExpr, error) {
	if err := p.expect("("); err != nil {
		return nil, err
	}
	var args []*SExpr
	if p.accept(")") {
		return args, nil
	}
	for {
		a, err := p.expr()
		if err != nil {
			return nil, err
		}
		args = append(args, a)
		if p.accept(",") {
			continue
		}
		break
	}
	if err := p.expect(")"); err != nil {
		return nil, err
	}
	return args, nil
}

func (p *sparser) primary() (*SExpr, error) {
	t := p.next()
	switch t.k {
	case "num":
		return &SExpr{Kind: SNum, Lit: t.s, Pos: t.pos}, nil
	case "float":
		return &SExpr{Kind: SFloat, Lit: t.s, Pos: t.pos}, nil
	case "str":
		return &SExpr{Kind: SStr, Lit: t.s, Pos: t.pos}, nil
	case "id":
		switch t.s {
		case "true", "false":
			return &SExpr{Kind: SBool, Lit: t.s, Pos: t.pos}, nil
		case "nil":
			return &SExpr{Kind: SNil, Pos: t.pos}, nil
		case "old":
			if p.isOp("(") {
				args, err := p.args()
				if err != nil {
					return nil, err
				}
				if len(args) != 1 {
					return nil, fmt.Errorf("old takes one argument in %q", p.src)
				}
				return &SExpr{Kind: SOld, Args: args, Pos: t.pos}, nil
			}
		case "Mem":
			if p.isOp("[") {
				p.next()
				ty, err := p.typeExpr()
				if err != nil {
					return nil, err
				}
				if err := p.expect("]"); err != nil {
					return nil, err
				}
				return &SExpr{Kind: SMem, Type: ty, Pos: t.pos}, nil
			}
		}
		if p.isOp("(") {
			args, err := p.args()
			if err != nil {
				return nil, err
			}
			return &SExpr{Kind: SCall, Name: t.s, Args: args, Pos: t.pos}, nil
		}
		return &SExpr{Kind: SIdent, Name: t.s, Pos: t.pos}, nil
	case "op":
		if t.s == "(" {
			e, err := p.expr()
			if err != nil {
				return nil, err
			}
			if err := p.expect(")"); err != nil {
				return nil, err
			}
			return e, nil
		}
	}
	return nil, fmt.Errorf("unexpected token %q at %d in %q", t.s, t.pos, p.src)
}

// ---------------------------------------------------------------------------
// contract files

type Clause struct {
	Local bool // ensures_local: an assertion at every return that may mention the function's local variables; invisible to callers
	Free  bool // free ensures: assumed by callers, not checked in the callee (listed as an assumption)
	Label string
	Props []string // optional restriction
	Expr  *SExpr
	Src   string
	File  string
	Line  int
}

type LoopSpec struct {
	Ordinal    int
	Invariants []*Clause
	Exits      []*Clause // assertions that must hold whenever the loop is left (any exit edge)
	Leaves     []*Clause // assertions on every edge that leaves the loop STATEMENT (after the statements executed before a break)
	Focus      []string  // focus l1, l2: invariants every preservation obligation of this loop keeps in its focused context
	HasFocus   bool
}

type PredDef struct {
	Name   string
	Params []Binder
	Ret    *TypeExpr // nil => bool
	Body   *SExpr
	Pkg    string // package path where declared ("" = global)
	File   string
	Line   int
	Src    string
}

type UFunc struct {
	Name string
	Args []string // SMT sorts
	Ret  string
	File string
	Line int
}

type LemmaDef struct {
	Name string
}

// GuardDef declares a synchronisation discipline for a struct field:
//
//	guarded T.f by m   - every access needs the mutex in field m of the same object to be held
//	atomic T.f         - the field may only be accessed through sync/atomic (its address passed on)
type GuardDef struct {
	Type, Field, By string
	Atomic          bool
	Pkg             string
	File            string
	Line            int
}

type SmtDef struct {
	Mode string // "real", "fp" or "" (both)
	Text string
	File string
	Line int
}

type AxiomDef struct {
	FromLemma bool // derived from an smtlemma: proved in the same run, not an assumption
	Name      string
	Raw       string // raw SMT-LIB formula (smtaxiom); Expr is nil then
	Expr      *SExpr
	Pkg       string
	File      string
	Line      int
	Src       string
}

type GhostDef struct {
	Name string
	Type *TypeExpr // int/bool/float64, or map: "map" handled via Sort
	Sort string    // explicit SMT sort if given
	Pkg  string
}

type GhostStmt struct {
	CallOrdinal int // nth call (1-based) to Callee within the function; 0 = at entry
	Callee      string
	When        string // "before" | "after"
	Var         string
	Expr        *SExpr
	Src         string
	Soft        bool     // cut soft ...: nothing is forgotten; the focused context is only tried first
	Keep        []string // cut keep(l1, l2, ...): labels of the facts every later obligation sees in its focused context
	Cut         bool     // cut @ ...: after the statements listed before it at the same place, later obligations of the dominated code forget every earlier assumption except the requires and the facts asserted here
	Assert      *Clause  // assert [label] EXPR @ ...: an intermediate assertion (proved at that point, then available as a fact)
}

type FuncContract struct {
	Key       string // resolved function key, e.g. "genetics.geneInsert", "genetics.(*Genome).geneInsert"
	Pkg       string // package path of the declaring file ("" for externals file)
	Props     []string
	Requires  []*Clause
	Ensures   []*Clause
	Modifies  []string
	HasMod    bool
	Loops     map[int]*LoopSpec
	Trusted   bool // assumed, not verified (externals, interface methods)
	Inline    bool
	Mode      string   // "", "real", "fp"
	Params    []string // optional explicit parameter names (externals)
	MayPanic  bool
	Pure      bool // no heap effect, no allocation
	NoAlloc   bool
	FDef      bool // float divisions generate definedness obligations
	Ghost     []*GhostStmt
	Asserts   []*AssertAt
	Uses      []string // axioms made available to this function's obligations
	IsLemma   bool     // no function body: the ensures clauses are proved from the used axioms alone
	Exclusive bool     // runs while the receiver is not shared between goroutines (constructors, the sequential phase): guard obligations do not apply
	OwnWrites []string // own_writes D1, D2: the function's OWN store instructions (callees excluded) touch only these families (syntactic scan)
	HasOwnW   bool
	SelectDone string  // select_done G: a non-blocking select with one receive case takes that case iff ghost G holds (G = "the context is cancelled")
	AssumePre []string // callees whose preconditions are ASSUMED at this function's call sites (listed as an assumption in the evidence)
	Abstracts []string // abstractions of the encoding this contract was written with (e.g. "select")
	UFArith   bool     // symbolic float products / quotients are uninterpreted (fmulU / fdivU)
	Induct    string   // smtlemma: induction variable (Int, >= 0)
	RawVars   string   // smtlemma: SMT binder list of the universally quantified variables, e.g. "(a (Array Int Int)) (o Int)"
	RawClaim  string   // smtlemma: SMT formula over RawVars and Induct
	RawPat    string   // smtlemma: trigger used when the proven lemma is made available as an axiom
	File      string
	Line      int
	Reason    string // free text for trusted contracts
}

type AssertAt struct {
	Line   int // source line in /repo file? (unused)
	Clause *Clause
}

type SpecFile struct {
	Preds   []*PredDef
	UFuncs  []*UFunc
	Axioms  []*AxiomDef
	Ghosts  []*GhostDef
	Funcs   []*FuncContract
	Lemmas  []*LemmaDef
	SmtDefs []*SmtDef
	Guards  []*GuardDef
}

var clauseKeywords = map[string]bool{
	"pred": true, "spec": true, "ufunc": true, "axiom": true, "ghost": true, "func": true,
	"props": true, "requires": true, "ensures": true, "modifies": true, "loop": true,
	"invariant": true, "trusted": true, "inline": true, "mode": true, "params": true,
	"maypanic": true, "fdef": true, "pure": true, "noalloc": true, "set": true, "reason": true,
	"uses": true, "lemma": true, "exit": true, "leave": true, "cut": true, "focus": true, "free_ensures": true, "ensures_local": true,
	"atomic": true, "exclusive": true, "abstracts": true, "select_done": true, "assume_pre": true, "own_writes": true, "ufarith": true, "smtlemma": true, "induct": true, "vars": true, "claim": true, "pattern": true, "smtaxiom": true, "smtdef": true, "guarded": true, "assert": true,
}

type rawLine struct {
	text string
	line int
}

// ParseSpecFile reads `//@` lines from a file. pkgPath is the import path of the
// package the file belongs to ("" for the externals file).
func ParseSpecFile(path, pkgPath string) (*SpecFile, error) {
	data, err := os.ReadFile(path)
	if err != nil {
		return nil, err
	}
	var logical []rawLine
	for i, ln := range strings.Split(string(data), "\n") {
		t := strings.TrimSpace(ln)
		if !strings.HasPrefix(t, "//@") {
			continue
		}
		body := strings.TrimPrefix(t, "//@")
		// strip trailing comment introduced by " // "
		if k := strings.Index(body, " // "); k >= 0 {
			body = body[:k]
		}
		bt := strings.TrimSpace(body)
		if bt == "" {
			continue
		}
		first := bt
		if k := strings.IndexAny(bt, " \t:("); k >= 0 {
			first = bt[:k]
		}
		if clauseKeywords[first] {
			logical = append(logical, rawLine{bt, i + 1})
		} else if len(logical) > 0 {
			logical[len(logical)-1].text += " " + bt
		} else {
			return nil, fmt.Errorf("%s:%d: continuation without a clause", path, i+1)
		}
	}
	sf := &SpecFile{}
	var cur *FuncContract
	var curLoop *LoopSpec
	for _, rl := range logical {
		kw, rest := splitKw(rl.text)
		fail := func(e error) error { return fmt.Errorf("%s:%d: %v", path, rl.line, e) }
		switch kw {
		case "pred", "spec":
			pd, err := parsePred(rest, kw == "spec")
			if err != nil {
				return nil, fail(err)
			}
			pd.Pkg, pd.File, pd.Line, pd.Src = pkgPath, path, rl.line, rest
			sf.Preds = append(sf.Preds, pd)
			cur, curLoop = nil, nil
		case "ufunc":
			// ufunc name(Sort, Sort) Sort
			uf, err := parseUFunc(rest)
			if err != nil {
				return nil, fail(err)
			}
			uf.File, uf.Line = path, rl.line
			sf.UFuncs = append(sf.UFuncs, uf)
			cur, curLoop = nil, nil
		case "axiom":
			k := strings.Index(rest, ":")
			if k < 0 {
				return nil, fail(fmt.Errorf("axiom NAME: expr"))
			}
			e, err := ParseSpecExpr(rest[k+1:])
			if err != nil {
				return nil, fail(err)
			}
			sf.Axioms = append(sf.Axioms, &AxiomDef{Name: strings.TrimSpace(rest[:k]), Expr: e, Pkg: pkgPath, File: path, Line: rl.line, Src: strings.TrimSpace(rest[k+1:])})
			cur, curLoop = nil, nil
		case "smtaxiom":
			k := strings.Index(rest, ":")
			if k < 0 {
				return nil, fail(fmt.Errorf("smtaxiom NAME: (formula)"))
			}
			sf.Axioms = append(sf.Axioms, &AxiomDef{Name: strings.TrimSpace(rest[:k]), Raw: strings.TrimSpace(rest[k+1:]), Pkg: pkgPath, File: path, Line: rl.line, Src: strings.TrimSpace(rest[k+1:])})
			cur, curLoop = nil, nil
		case "smtdef":
			sd := &SmtDef{Text: rest, File: path, Line: rl.line}
			if strings.HasPrefix(rest, "real:") || strings.HasPrefix(rest, "fp:") {
				k := strings.Index(rest, ":")
				sd.Mode, sd.Text = rest[:k], strings.TrimSpace(rest[k+1:])
			}
			sf.SmtDefs = append(sf.SmtDefs, sd)
			cur, curLoop = nil, nil
		case "lemma":
			cur = &FuncContract{Key: "lemma " + strings.TrimSpace(rest), Pkg: pkgPath, Loops: map[int]*LoopSpec{}, File: path, Line: rl.line, IsLemma: true}
			curLoop = nil
			sf.Funcs = append(sf.Funcs, cur)
		case "guarded", "atomic":
			fs := strings.Fields(rest)
			if len(fs) == 0 || !strings.Contains(fs[0], ".") {
				return nil, fail(fmt.Errorf("guarded T.f by m | atomic T.f"))
			}
			k := strings.LastIndex(fs[0], ".")
			gd := &GuardDef{Type: fs[0][:k], Field: fs[0][k+1:], Atomic: kw == "atomic", Pkg: pkgPath, File: path, Line: rl.line}
			if kw == "guarded" {
				if len(fs) != 3 || fs[1] != "by" {
					return nil, fail(fmt.Errorf("guarded T.f by m"))
				}
				gd.By = fs[2]
			}
			sf.Guards = append(sf.Guards, gd)
			cur, curLoop = nil, nil
		case "smtlemma":
			cur = &FuncContract{Key: "lemma " + strings.TrimSpace(rest), Pkg: pkgPath, Loops: map[int]*LoopSpec{}, File: path, Line: rl.line, IsLemma: true}
			curLoop = nil
			sf.Funcs = append(sf.Funcs, cur)
		case "ghost":
			fs := strings.Fields(rest)
			if len(fs) < 2 {
				return nil, fail(fmt.Errorf("ghost NAME SORT"))
			}
			sf.Ghosts = append(sf.Ghosts, &GhostDef{Name: fs[0], Sort: strings.Join(fs[1:], " "), Pkg: pkgPath})
			cur, curLoop = nil, nil
		case "func":
			cur = &FuncContract{Key: strings.TrimSpace(rest), Pkg: pkgPath, Loops: map[int]*LoopSpec{}, File: path, Line: rl.line}
			curLoop = nil
			sf.Funcs = append(sf.Funcs, cur)
		default:
			if cur == nil {
				return nil, fail(fmt.Errorf("clause %q outside func", kw))
			}
			switch kw {
			case "props":
				cur.Props = strings.Fields(rest)
			case "uses":
				cur.Uses = append(cur.Uses, strings.Fields(strings.ReplaceAll(rest, ",", " "))...)
			case "induct":
				cur.Induct = strings.TrimSpace(rest)
			case "vars":
				cur.RawVars = strings.TrimSpace(rest)
			case "claim":
				cur.RawClaim = strings.TrimSpace(rest)
			case "pattern":
				cur.RawPat = strings.TrimSpace(rest)
			case "params":
				cur.Params = strings.Fields(strings.ReplaceAll(rest, ",", " "))
			case "trusted":
				cur.Trusted = true
				cur.Reason = rest
			case "reason":
				cur.Reason = rest
			case "inline":
				cur.Inline = true
			case "maypanic":
				cur.MayPanic = true
			case "fdef":
				cur.FDef = true
			case "ufarith":
				cur.UFArith = true
			case "exclusive":
				cur.Exclusive = true
			case "own_writes":
				cur.HasOwnW = true
				for _, a := range strings.Split(rest, ",") {
					if a = strings.TrimSpace(a); a != "" && a != "nothing" {
						cur.OwnWrites = append(cur.OwnWrites, a)
					}
				}
			case "select_done":
				cur.SelectDone = strings.TrimSpace(rest)
			case "assume_pre":
				for _, a := range strings.Split(rest, ",") {
					if a = strings.TrimSpace(a); a != "" {
						cur.AssumePre = append(cur.AssumePre, a)
					}
				}
			case "abstracts":
				for _, a := range strings.Split(rest, ",") {
					if a = strings.TrimSpace(a); a != "" {
						cur.Abstracts = append(cur.Abstracts, a)
					}
				}
			case "pure":
				cur.Pure = true
			case "noalloc":
				cur.NoAlloc = true
			case "mode":
				cur.Mode = strings.TrimSpace(rest)
			case "modifies":
				cur.HasMod = true
				for _, d := range strings.Split(rest, ",") {
					d = strings.TrimSpace(d)
					if d != "" && d != "nothing" {
						cur.Modifies = append(cur.Modifies, d)
					}
				}
			case "loop":
				var n int
				if _, err := fmt.Sscanf(strings.TrimSuffix(strings.TrimSpace(rest), ":"), "%d", &n); err != nil {
					return nil, fail(fmt.Errorf("loop N:"))
				}
				curLoop = &LoopSpec{Ordinal: n}
				cur.Loops[n] = curLoop
			case "set":
				// set VAR = EXPR before|after call N of CALLEE   | set VAR = EXPR at entry
				gs, err := parseGhostStmt(rest)
				if err != nil {
					return nil, fail(err)
				}
				cur.Ghost = append(cur.Ghost, gs)
			case "focus":
				if curLoop == nil {
					return nil, fail(fmt.Errorf("focus outside loop"))
				}
				curLoop.HasFocus = true
				for _, l := range strings.Split(rest, ",") {
					if l = strings.TrimSpace(l); l != "" {
						curLoop.Focus = append(curLoop.Focus, l)
					}
				}
			case "cut":
				var keep []string
				soft := false
				if strings.HasPrefix(rest, "soft ") {
					soft = true
					rest = strings.TrimSpace(rest[5:])
				}
				if strings.HasPrefix(rest, "keep(") {
					if k := strings.Index(rest, ")"); k > 0 {
						for _, l := range strings.Split(rest[len("keep("):k], ",") {
							keep = append(keep, strings.TrimSpace(l))
						}
						rest = strings.TrimSpace(rest[k+1:])
					}
				}
				gs, err := parseGhostStmt("_ = true " + rest)
				if err != nil {
					return nil, fail(err)
				}
				gs.Var, gs.Cut, gs.Src, gs.Keep, gs.Soft = "", true, rest, keep, soft
				cur.Ghost = append(cur.Ghost, gs)
			case "assert":
				// assert [label] EXPR @ before|after N CALLEE : a cut point inside the body
				at := strings.LastIndex(rest, "@")
				if at < 0 {
					return nil, fail(fmt.Errorf("assert EXPR @ before|after N callee"))
				}
				cl, err := parseClause(rest[:at])
				if err != nil {
					return nil, fail(err)
				}
				cl.File, cl.Line = path, rl.line
				gs, err := parseGhostStmt("_ = true " + rest[at:])
				if err != nil {
					return nil, fail(err)
				}
				gs.Var, gs.Expr, gs.Assert, gs.Src = "", cl.Expr, cl, rest
				cur.Ghost = append(cur.Ghost, gs)
			case "requires", "ensures", "invariant", "exit", "leave", "free_ensures", "ensures_local":
				cl, err := parseClause(rest)
				if err != nil {
					return nil, fail(err)
				}
				cl.File, cl.Line = path, rl.line
				switch kw {
				case "requires":
					cur.Requires = append(cur.Requires, cl)
				case "ensures":
					cur.Ensures = append(cur.Ensures, cl)
				case "free_ensures":
					cl.Free = true
					cur.Ensures = append(cur.Ensures, cl)
				case "ensures_local":
					cl.Local = true
					cur.Ensures = append(cur.Ensures, cl)
				case "exit":
					if curLoop == nil {
						return nil, fail(fmt.Errorf("exit outside loop"))
					}
					curLoop.Exits = append(curLoop.Exits, cl)
				case "leave":
					if curLoop == nil {
						return nil, fail(fmt.Errorf("leave outside loop"))
					}
					curLoop.Leaves = append(curLoop.Leaves, cl)
				case "invariant":
					if curLoop == nil {
						return nil, fail(fmt.Errorf("invariant outside loop"))
					}
					curLoop.Invariants = append(curLoop.Invariants, cl)
				}
			}
		}
	}
	return sf, nil
}

func splitKw(s string) (string, string) {
	k := strings.IndexAny(s, " \t")
	if k < 0 {
		return strings.TrimSuffix(s, ":"), ""
	}
	return s[:k], strings.TrimSpace(s[k+1:])
}

func parseClause(rest string) (*Clause, error) {
	cl := &Clause{}
	rest = strings.TrimSpace(rest)
	if strings.HasPrefix(rest, "[") {
		k := strings.Index(rest, "]")
		if k < 0 {
			return nil, fmt.Errorf("unterminated label")
		}
		for _, f := range strings.Fields(rest[1:k]) {
			if len(f) >= 3 && f[0] == 'C' && f[1] >= '0' && f[1] <= '9' {
				cl.Props = append(cl.Props, f)
			} else {
				cl.Label = f
			}
		}
		rest = strings.TrimSpace(rest[k+1:])
	}
	e, err := ParseSpecExpr(rest)
	if err != nil {
		return nil, err
	}
	cl.Expr = e
	cl.Src = rest
	return cl, nil
}

func parsePred(rest string, isSpec bool) (*PredDef, error) {
	// NAME(p T, q T) [RET] = expr
	k := strings.Index(rest, "(")
	if k < 0 {
		return nil, fmt.Errorf("pred NAME(params) = expr")
	}
	name := strings.TrimSpace(rest[:k])
	depth := 0
	end := -1
	for i := k; i < len(rest); i++ {
		if rest[i] == '(' {
			depth++
		} else if rest[i] == ')' {
			depth--
			if depth == 0 {
				end = i
				break
			}
		}
	}
	if end < 0 {
		return nil, fmt.Errorf("unbalanced parens in pred header")
	}
	params := rest[k+1 : end]
	after := rest[end+1:]
	eq := strings.Index(after, "=")
	if eq < 0 {
		return nil, fmt.Errorf("pred needs = body")
	}
	retS := strings.TrimSpace(after[:eq])
	body := after[eq+1:]
	pd := &PredDef{Name: name}
	if strings.TrimSpace(params) != "" {
		for _, ps := range strings.Split(params, ",") {
			toks, err := lexSpec(ps)
			if err != nil {
				return nil, err
			}
			sp := &sparser{toks: toks, src: ps}
			n := sp.next()
			if n.k != "id" {
				return nil, fmt.Errorf("bad parameter %q", ps)
			}
			b := Binder{Name: n.s}
			if sp.peek().k != "eof" {
				ty, err := sp.typeExpr()
				if err != nil {
					return nil, err
				}
				b.Type = ty
			}
			pd.Params = append(pd.Params, b)
		}
	}
	if retS != "" {
		toks, err := lexSpec(retS)
		if err != nil {
			return nil, err
		}
		sp := &sparser{toks: toks, src: retS}
		ty, err := sp.typeExpr()
		if err != nil {
			return nil, err
		}
		pd.Ret = ty
	} else if isSpec {
		pd.Ret = &TypeExpr{Name: "int"}
	}
	e, err := ParseSpecExpr(body)
	if err != nil {
		return nil, err
	}
	pd.Body = e
	return pd, nil
}

func parseUFunc(rest string) (*UFunc, error) {
	k := strings.Index(rest, "(")
	if k < 0 {
		return nil, fmt.Errorf("ufunc NAME(Sort,...) Sort")
	}
	depth, e := 0, -1
	for i := k; i < len(rest); i++ {
		if rest[i] == '(' {
			depth++
		} else if rest[i] == ')' {
			depth--
			if depth == 0 {
				e = i
				break
			}
		}
	}
	if e < 0 {
		return nil, fmt.Errorf("ufunc NAME(Sort,...) Sort")
	}
	uf := &UFunc{Name: strings.TrimSpace(rest[:k])}
	depth = 0
	start := k + 1
	for i := k + 1; i <= e; i++ {
		c := rest[i]
		if c == '(' {
			depth++
		} else if c == ')' && i < e {
			depth--
		}
		if (c == ',' && depth == 0) || i == e {
			a := strings.TrimSpace(rest[start:i])
			if a != "" {
				uf.Args = append(uf.Args, a)
			}
			start = i + 1
		}
	}
	uf.Ret = strings.TrimSpace(rest[e+1:])
	if uf.Ret == "" {
		return nil, fmt.Errorf("ufunc needs a result sort")
	}
	return uf, nil
}

func parseGhostStmt(rest string) (*GhostStmt, error) {
	// VAR = EXPR @ entry | VAR = EXPR @ before N CALLEE | VAR = EXPR @ after N CALLEE
	at := strings.LastIndex(rest, "@")
	if at < 0 {
		return nil, fmt.Errorf("set VAR = EXPR @ entry|before N callee|after N callee")
	}
	lhsrhs := rest[:at]
	where := strings.Fields(rest[at+1:])
	eq := strings.Index(lhsrhs, "=")
	if eq < 0 {
		return nil, fmt.Errorf("set needs =")
	}
	gs := &GhostStmt{Var: strings.TrimSpace(lhsrhs[:eq]), Src: rest}
	e, err := ParseSpecExpr(lhsrhs[eq+1:])
	if err != nil {
		return nil, err
	}
	gs.Expr = e
	if len(where) == 1 && where[0] == "entry" {
		gs.When = "entry"
		return gs, nil
	}
	if len(where) == 3 && (where[0] == "before" || where[0] == "after") {
		gs.When = where[0]
		if where[1] == "*" {
			gs.CallOrdinal = -1 // every call site
		} else if _, err := fmt.Sscanf(where[1], "%d", &gs.CallOrdinal); err != nil {
			return nil, err
		}
		gs.Callee = where[2]
		return gs, nil
	}
	return nil, fmt.Errorf("bad ghost position %q", rest[at+1:])
}
