package main

import (
	"bytes"
	"context"
	"fmt"
	"os"
	"os/exec"
	"path/filepath"
	"strings"
	"sync"
	"syscall"
	"time"
)

type solverSpec struct {
	Name string
	Cmd  func(file string, sec int) []string
}

var solvers = []solverSpec{
	{"z3-5.1.0", func(f string, sec int) []string { return cpuLimited(sec, "z3-new", f) }},
	{"z3-4.8.12", func(f string, sec int) []string { return cpuLimited(sec, "/usr/bin/z3", f) }},
	{"cvc5-1.0", func(f string, sec int) []string { return cpuLimited(sec, "cvc5", f) }},
}

// cpuLimited runs a solver under a CPU-time limit (ulimit -t), so that the verdict does not depend on how
// many other solver processes share the machine; the wall-clock limit (see runSolverCtx) is only a backstop.
func cpuLimited(sec int, argv ...string) []string {
	return append([]string{"/bin/sh", "-c", fmt.Sprintf("ulimit -t %d; exec \"$@\"", sec), "sh"}, argv...)
}

type solveOut struct {
	status string
	solver string
	secs   float64
	output string
}

func runSolver(s solverSpec, file string, sec int) solveOut {
	return runSolverCtx(context.Background(), s, file, sec)
}

func runSolverCtx(parent context.Context, s solverSpec, file string, sec int) solveOut {
	args := s.Cmd(file, sec)
	ctx, cancel := context.WithTimeout(parent, time.Duration(4*sec+10)*time.Second)
	defer cancel()
	cmd := exec.CommandContext(ctx, args[0], args[1:]...)
	var out bytes.Buffer
	cmd.Stdout = &out
	cmd.Stderr = &out
	t0 := time.Now()
	runErr := cmd.Run()
	el := time.Since(t0).Seconds()
	killed := false
	if ee, ok := runErr.(*exec.ExitError); ok && ee.ProcessState != nil {
		if ws, ok := ee.ProcessState.Sys().(syscall.WaitStatus); ok && ws.Signaled() {
			killed = true // SIGXCPU / SIGKILL: the CPU-time limit (or the backstop) was reached
		}
	}
	text := out.String()
	first := strings.TrimSpace(strings.SplitN(text, "\n", 2)[0])
	st := "unknown"
	switch {
	case first == "unsat":
		st = "unsat"
	case first == "sat":
		st = "sat"
	case parent.Err() != nil:
		st = "cancelled"
	case killed || first == "timeout" || ctx.Err() != nil || strings.Contains(first, "interrupted") || strings.Contains(first, "time limit"):
		st = "timeout"
	case strings.HasPrefix(first, "(error") || strings.Contains(first, "rror"):
		st = "error"
	}
	return solveOut{st, s.Name, el, text}
}

// Solve discharges one obligation. Stage 1: a short run of the solver that suits the
// float mode (z3 5.1 for reals, cvc5 for IEEE). Stage 2: all three solvers raced; the
// first definite answer wins and the others are killed.
func (vc *VC) Solve(o *Obl, dir string, quickSec, slowSec int, cross bool) {
	if o.Status != "" {
		return
	}
	file := filepath.Join(dir, smtName(o.Name)+".smt2")
	if err := os.WriteFile(file, []byte(vc.script(o, true)), 0o644); err != nil {
		o.Status = "error"
		o.Model = err.Error()
		return
	}
	o.File = file
	// hints recorded for the conjuncts of this goal: an earlier proof went through the split, start there
	if !o.part && hintFor(o.Name+".c1") != nil {
		if vc.solveSplit(o, dir, quickSec, slowSec) {
			return
		}
	}
	// stage -2: behind a cut, the focused context (own cut fact + the facts marked keep)
	if o.Cut != nil {
		ffile := filepath.Join(dir, smtName(o.Name)+".focused.smt2")
		if err := os.WriteFile(ffile, []byte(vc.focusedScript(o)), 0o644); err == nil {
			rf := runSolver(solvers[0], ffile, quickSec)
			o.TimeS += rf.secs
			if rf.status == "unsat" {
				o.Status, o.Solver, o.File = "unsat", rf.solver+" (focused context after cut)", ffile
				return
			}
		}
	}
	// stage -1: a proof hint (the quantified assumptions an earlier proof used); sound whatever the hint says
	if hs := hintFor(o.Name); hs != nil {
		hfile := filepath.Join(dir, smtName(o.Name)+".hinted.smt2")
		if err := os.WriteFile(hfile, []byte(vc.hintedScript(o, hs)), 0o644); err == nil {
			rh := runSolver(solvers[0], hfile, quickSec)
			o.TimeS += rh.secs
			if rh.status == "unsat" {
				o.Status, o.Solver, o.File = "unsat", rh.solver+" (core-hinted context)", hfile
				return
			}
		}
	}
	// stage 0: the same obligation with the quantified assumptions about unrelated parts of the heap removed
	nq := 0
	for i, c := range vc.cmds[:o.CtxLen] {
		if !vc.hidden(o, i, c) {
			nq += strings.Count(c, "(forall ")
		}
	}
	if nq > 40 {
		sfile := filepath.Join(dir, smtName(o.Name)+".sliced.smt2")
		if err := os.WriteFile(sfile, []byte(vc.slicedScript(o)), 0o644); err == nil {
			r0 := runSolver(solvers[0], sfile, quickSec)
			o.TimeS += r0.secs
			if r0.status == "unsat" {
				o.Status, o.Solver, o.File = "unsat", r0.solver+" (sliced context)", sfile
				return
			}
		}
	}
	firstIdx := 0
	if vc.fc != nil && vc.fc.Mode == "fp" {
		firstIdx = 2
	}
	stage1 := 3
	if quickSec < stage1 {
		stage1 = quickSec
	}
	r := runSolver(solvers[firstIdx], file, stage1)
	o.TimeS += r.secs
	if r.status != "unsat" && r.status != "sat" {
		if o.part {
			// a conjunct of a split goal gets the cheap stages only; the whole goal is raced afterwards anyway
			o.Status, o.Solver, o.Model = "unknown", r.solver, r.output
			return
		}
		// stage 2: conjuncts of the goal one by one (a quantified conjunction is much harder than its parts)
		if vc.solveSplit(o, dir, quickSec, slowSec) {
			return
		}
		ctx, cancel := context.WithCancel(context.Background())
		ch := make(chan solveOut, len(solvers))
		for _, s := range solvers {
			go func(s solverSpec) { ch <- runSolverCtx(ctx, s, file, slowSec) }(s)
		}
		var rest []solveOut
		got := false
		for range solvers {
			r2 := <-ch
			rest = append(rest, r2)
			if r2.status == "unsat" || r2.status == "sat" {
				r = r2
				got = true
				o.TimeS += r2.secs
				break
			}
		}
		cancel()
		if !got {
			o.TimeS += float64(slowSec)
			st := "unknown"
			for _, r2 := range rest {
				if r2.status == "timeout" {
					st = "timeout"
				}
			}
			for _, r2 := range rest {
				if r2.status == "error" && st == "unknown" {
					st = "error"
					r = r2
				}
			}
			o.Status, o.Solver, o.Model = st, r.solver, r.output
			return
		}
	}
	o.Status, o.Solver, o.Model = r.status, r.solver, r.output
	if o.Status == "unsat" {
		o.Model = ""
	}
	if cross && r.status == "unsat" {
		// thorough tier: no other solver may contradict a proof
		for _, s := range solvers {
			if s.Name == r.solver {
				continue
			}
			r2 := runSolver(s, file, quickSec)
			if r2.status == "sat" {
				o.Status = "error"
				o.Model = "solver disagreement: " + r.solver + " unsat, " + r2.solver + " sat\n" + r2.output
			}
		}
	}
}

// solveSplit: the goal split into its conjuncts (under the quantifiers and guards), each discharged on its own.
func (vc *VC) solveSplit(o *Obl, dir string, quickSec, slowSec int) bool {
	parts := splitGoal(o.Goal)
	if !o.part {
		if paths := vc.pathSplit(o); len(paths) > 1 {
			parts = nil
			for _, pg := range paths {
				parts = append(parts, splitGoal(pg)...)
			}
		}
	}
	if len(parts) <= 1 || len(parts) > 24 || o.part {
		return false
	}
	all := true
	subs := make([]*Obl, len(parts))
	var wg sync.WaitGroup
	for i, p := range parts {
		sub := *o
		sub.Goal, sub.Status, sub.Name, sub.part, sub.TimeS = p, "", fmt.Sprintf("%s.c%d", o.Name, i+1), true, 0
		subs[i] = &sub
		wg.Add(1)
		go func(sub *Obl) { defer wg.Done(); vc.Solve(sub, dir, quickSec, slowSec, false) }(&sub)
	}
	wg.Wait()
	for _, sub := range subs {
		o.TimeS += sub.TimeS
		if sub.Status != "unsat" {
			all = false
		}
	}
	if all {
		o.Status, o.Solver, o.Model = "unsat", fmt.Sprintf("%s (goal split into %d conjuncts)", subs[0].Solver, len(parts)), ""
	}
	return all
}

// SolveAll runs the obligations of several functions on a worker pool.
func SolveAll(items []struct {
	vc *VC
	o  *Obl
}, dir string, workers, quickSec, slowSec int, cross bool) {
	os.MkdirAll(dir, 0o755)
	ch := make(chan int)
	var wg sync.WaitGroup
	for w := 0; w < workers; w++ {
		wg.Add(1)
		go func() {
			defer wg.Done()
			for i := range ch {
				items[i].vc.Solve(items[i].o, dir, quickSec, slowSec, cross)
			}
		}()
	}
	for i := range items {
		ch <- i
	}
	close(ch)
	wg.Wait()
}

// satCheck: a query that must be satisfiable (vacuity guard).
func (vc *VC) satScript(ctxLen int, extra *Term) string {
	var sb strings.Builder
	sb.WriteString("(set-logic ALL)\n")
	sb.WriteString(vc.preambleFor(vc.usesMS(ctxLen, extra)))
	for _, c := range vc.cmds[:ctxLen] {
		sb.WriteString(c)
		sb.WriteByte('\n')
	}
	sb.WriteString("(assert " + extra.String() + ")\n(check-sat)\n")
	return sb.String()
}

// satScriptQF: like satScript, without the quantified assumptions.
func (vc *VC) satScriptQF(ctxLen int, extra *Term) string {
	var sb strings.Builder
	sb.WriteString("(set-logic ALL)\n")
	sb.WriteString(vc.preambleFor(vc.usesMS(ctxLen, extra)))
	for _, c := range vc.cmds[:ctxLen] {
		if strings.Contains(c, "(forall ") || strings.Contains(c, "(exists ") {
			continue
		}
		sb.WriteString(c)
		sb.WriteByte('\n')
	}
	sb.WriteString("(assert " + extra.String() + ")\n(check-sat)\n")
	return sb.String()
}

// pathSplit: a goal (=> R G) whose guard R is a reach condition is equivalent to the goals (=> path G) for the paths that
// make up R: reach conditions are defined as (or r1 ... rn) at join blocks and (and r c) on branch edges, and are expanded a
// few levels up. On each path the if-then-else terms of the merged state resolve by propagation, which matters for
// existential goals over a state merged from "inserted" and "found" branches.
func (vc *VC) pathSplit(o *Obl) []*Term {
	g := o.Goal
	if g.Op != "=>" || len(g.Args) != 2 || g.Args[0].Op != "" {
		return nil
	}
	defs := map[string][]string{} // atom -> ["or"|"and", args...]
	for _, c := range vc.cmds[:o.CtxLen] {
		if !strings.HasPrefix(c, "(assert (= reach.") {
			continue
		}
		body := strings.TrimSuffix(strings.TrimPrefix(c, "(assert (= "), "))")
		k := strings.Index(body, " (")
		if k < 0 {
			continue
		}
		name, rhs := body[:k], strings.TrimSuffix(body[k+2:], ")")
		// arguments are atoms or (not atom)
		rhs = strings.ReplaceAll(rhs, "(not ", "(not~")
		f := strings.Fields(rhs)
		if len(f) < 3 || (f[0] != "or" && f[0] != "and") {
			continue
		}
		ok := true
		for i, a := range f[1:] {
			if strings.HasPrefix(a, "(not~") && strings.HasSuffix(a, ")") && !strings.ContainsAny(a[5:len(a)-1], "()") {
				f[i+1] = "(not " + a[5:]
				continue
			}
			if strings.ContainsAny(a, "()") {
				ok = false
			}
		}
		if ok {
			defs[name] = f
		}
	}
	var expand func(atom string, depth int) [][]string
	expand = func(atom string, depth int) [][]string {
		d, ok := defs[atom]
		if !ok || depth == 0 {
			return [][]string{{atom}}
		}
		if d[0] == "or" {
			var out [][]string
			for _, a := range d[1:] {
				out = append(out, expand(a, depth-1)...)
			}
			return out
		}
		// and: expand the first conjunct (the predecessor's reach), keep the branch conditions
		var out [][]string
		for _, pth := range expand(d[1], depth-1) {
			out = append(out, append(append([]string{}, pth...), d[2:]...))
		}
		return out
	}
	paths := expand(g.Args[0].Atom, 6)
	if len(paths) <= 1 || len(paths) > 12 {
		return nil
	}
	var out []*Term
	for _, pth := range paths {
		var as []*Term
		for _, a := range pth {
			as = append(as, A(a))
		}
		out = append(out, App("=>", App("and", as...), g.Args[1]))
	}
	return out
}
