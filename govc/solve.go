package main

import (
	"bytes"
	"context"
	"fmt"
	"os"
	"os/exec"
	"path/filepath"
	"strings"
	"sync"
	"time"
)

type solverSpec struct {
	Name string
	Cmd  func(file string, sec int) []string
}

var solvers = []solverSpec{
	{"z3-5.1.0", func(f string, sec int) []string { return []string{"z3-new", fmt.Sprintf("-T:%d", sec), f} }},
	{"z3-4.8.12", func(f string, sec int) []string { return []string{"/usr/bin/z3", fmt.Sprintf("-T:%d", sec), f} }},
	{"cvc5-1.0", func(f string, sec int) []string {
		return []string{"cvc5", fmt.Sprintf("--tlimit=%d", sec*1000), f}
	}},
}

type solveOut struct {
	status string
	solver string
	secs   float64
	output string
}

func runSolver(s solverSpec, file string, sec int) solveOut {
	args := s.Cmd(file, sec)
	ctx, cancel := context.WithTimeout(context.Background(), time.Duration(sec+3)*time.Second)
	defer cancel()
	cmd := exec.CommandContext(ctx, args[0], args[1:]...)
	var out bytes.Buffer
	cmd.Stdout = &out
	cmd.Stderr = &out
	t0 := time.Now()
	_ = cmd.Run()
	el := time.Since(t0).Seconds()
	text := out.String()
	first := strings.TrimSpace(strings.SplitN(text, "\n", 2)[0])
	st := "unknown"
	switch {
	case first == "unsat":
		st = "unsat"
	case first == "sat":
		st = "sat"
	case first == "timeout" || ctx.Err() != nil || strings.Contains(first, "interrupted") || strings.Contains(first, "time limit"):
		st = "timeout"
	case strings.HasPrefix(first, "(error") || strings.Contains(first, "rror"):
		st = "error"
	}
	return solveOut{st, s.Name, el, text}
}

// Solve discharges one obligation: z3-new first, then the other two raced.
func (vc *VC) Solve(o *Obl, dir string, quickSec, slowSec int, cross bool) {
	if o.Status != "" {
		return
	}
	file := filepath.Join(dir, smtName(o.Name)+".smt2")
	if err := os.WriteFile(file, []byte(vc.script(o, true)), 0o644); err != nil {
		o.Status = "error"
		o.Model = err.Error()
		return
	}
	o.File = file
	r := runSolver(solvers[0], file, quickSec)
	o.TimeS += r.secs
	if r.status == "unsat" || r.status == "sat" {
		o.Status, o.Solver, o.Model = r.status, r.solver, r.output
		if cross && r.status == "unsat" {
			// thorough tier: a second solver must not contradict
			for _, s := range solvers[1:] {
				r2 := runSolver(s, file, slowSec)
				if r2.status == "sat" {
					o.Status = "error"
					o.Model = "solver disagreement: " + r.solver + " unsat, " + r2.solver + " sat\n" + r2.output
				}
			}
		}
		return
	}
	first := r
	var wg sync.WaitGroup
	res := make([]solveOut, len(solvers)-1)
	for i, s := range solvers[1:] {
		wg.Add(1)
		go func(i int, s solverSpec) {
			defer wg.Done()
			res[i] = runSolver(s, file, slowSec)
		}(i, s)
	}
	wg.Wait()
	for _, r2 := range res {
		o.TimeS += r2.secs
		if r2.status == "unsat" {
			o.Status, o.Solver, o.Model = "unsat", r2.solver, ""
			return
		}
	}
	for _, r2 := range res {
		if r2.status == "sat" {
			o.Status, o.Solver, o.Model = "sat", r2.solver, r2.output
			return
		}
	}
	o.Status, o.Solver, o.Model = first.status, first.solver, first.output
	if o.Status == "error" {
		// keep error text
		return
	}
	if o.Status != "timeout" {
		o.Status = "unknown"
	}
}

// SolveAll runs the obligations of several functions on a worker pool.
func SolveAll(items []struct {
	vc *VC
	o  *Obl
}, dir string, workers, quickSec, slowSec int, cross bool) {
	os.MkdirAll(dir, 0o755)
	ch := make(chan int)
	var wg sync.WaitGroup
	for w := 0; w < workers; w++ {
		wg.Add(1)
		go func() {
			defer wg.Done()
			for i := range ch {
				items[i].vc.Solve(items[i].o, dir, quickSec, slowSec, cross)
			}
		}()
	}
	for i := range items {
		ch <- i
	}
	close(ch)
	wg.Wait()
}

// satCheck: a query that must be satisfiable (vacuity guard).
func (vc *VC) satScript(ctxLen int, extra *Term) string {
	var sb strings.Builder
	sb.WriteString("(set-logic ALL)\n")
	sb.WriteString(vc.e.preamble(vc.usesMS(ctxLen, extra)))
	for _, c := range vc.cmds[:ctxLen] {
		sb.WriteString(c)
		sb.WriteByte('\n')
	}
	sb.WriteString("(assert " + extra.String() + ")\n(check-sat)\n")
	return sb.String()
}
