package main

// Model materialisation: for functions whose parameters are scalars or slices
// of scalars, the solver model of a failed obligation is turned into a Go test
// that calls the real function (go test -overlay; nothing is written to /repo).

import (
	"encoding/json"
	"fmt"
	"go/types"
	"math"
	"math/big"
	"os"
	"os/exec"
	"path/filepath"
	"regexp"
	"strconv"
	"strings"
)

func simpleScalar(t types.Type) bool {
	b, ok := t.Underlying().(*types.Basic)
	if !ok {
		return false
	}
	return b.Info()&(types.IsBoolean|types.IsInteger|types.IsFloat) != 0
}

func materialisable(t types.Type) bool {
	if simpleScalar(t) {
		return true
	}
	if s, ok := t.Underlying().(*types.Slice); ok {
		return simpleScalar(s.Elem())
	}
	return false
}

// getValues runs the obligation script with (get-value ...) for the given terms.
func (vc *VC) getValues(o *Obl, extra []string, terms []string, dir string) (map[string]string, bool) {
	var sb strings.Builder
	sb.WriteString("(set-option :produce-models true)\n(set-logic ALL)\n")
	sb.WriteString(vc.preambleFor(vc.usesMS(o.CtxLen, o.Goal)))
	for _, d := range vc.extraDecls {
		sb.WriteString(d + "\n")
	}
	for _, c := range vc.cmds[:o.CtxLen] {
		sb.WriteString(c)
		sb.WriteByte('\n')
	}
	sb.WriteString("(assert (not " + o.Goal.String() + "))\n")
	for _, x := range extra {
		sb.WriteString("(assert " + x + ")\n")
	}
	sb.WriteString("(check-sat)\n")
	for _, t := range terms {
		sb.WriteString("(get-value (" + t + "))\n")
	}
	file := filepath.Join(dir, "model_"+smtName(o.Name)+".smt2")
	os.WriteFile(file, []byte(sb.String()), 0o644)
	r := runSolver(solvers[0], file, 10)
	if r.status != "sat" {
		r = runSolver(solvers[2], file, 10)
		if r.status != "sat" {
			return nil, false
		}
	}
	lines := strings.Split(r.output, "\n")
	// join everything after the first line and split top-level s-expressions
	vals := splitSexprs(strings.Join(lines[1:], " "))
	out := map[string]string{}
	for i, t := range terms {
		if i < len(vals) {
			// vals[i] = ((term value))
			v := strings.TrimSpace(vals[i])
			v = strings.TrimPrefix(v, "(")
			v = strings.TrimSuffix(v, ")")
			v = strings.TrimSpace(v)
			v = strings.TrimPrefix(v, "(")
			v = strings.TrimSuffix(v, ")")
			// drop the echoed term
			inner := splitSexprs(v)
			if len(inner) >= 2 {
				out[t] = strings.TrimSpace(inner[len(inner)-1])
			}
		}
	}
	return out, true
}

func splitSexprs(s string) []string {
	var out []string
	depth := 0
	start := -1
	for i := 0; i < len(s); i++ {
		c := s[i]
		switch {
		case c == '(':
			if depth == 0 && start < 0 {
				start = i
			}
			depth++
		case c == ')':
			depth--
			if depth == 0 && start >= 0 {
				out = append(out, s[start:i+1])
				start = -1
			}
		case c == ' ' || c == '\t' || c == '\n':
			if depth == 0 && start >= 0 {
				out = append(out, s[start:i])
				start = -1
			}
		default:
			if depth == 0 && start < 0 {
				start = i
			}
		}
	}
	if start >= 0 {
		out = append(out, s[start:])
	}
	return out
}

var fpRe = regexp.MustCompile(`\(fp #b([01]) #b([01]+) #[bx]([0-9a-fA-F]+)\)`)

// smtToGo renders a solver value as a Go literal of the given basic type.
func smtToGo(v string, t types.Type) (string, bool) {
	v = strings.TrimSpace(v)
	b := t.Underlying().(*types.Basic)
	switch {
	case b.Info()&types.IsBoolean != 0:
		return v, v == "true" || v == "false"
	case b.Info()&types.IsInteger != 0:
		r, ok := evalRat(v)
		if !ok || !r.IsInt() {
			return "", false
		}
		return r.Num().String(), true
	case b.Info()&types.IsFloat != 0:
		if strings.Contains(v, "NaN") {
			return "math.NaN()", true
		}
		if strings.Contains(v, "+oo") {
			return "math.Inf(1)", true
		}
		if strings.Contains(v, "-oo") {
			return "math.Inf(-1)", true
		}
		if strings.Contains(v, "+zero") {
			return "0.0", true
		}
		if strings.Contains(v, "-zero") {
			return "math.Copysign(0, -1)", true
		}
		if m := fpRe.FindStringSubmatch(v); m != nil {
			bits := m[1] + m[2]
			man := m[3]
			if strings.Contains(v, "#x"+man) {
				n, _ := new(big.Int).SetString(man, 16)
				man = fmt.Sprintf("%052b", n)
			}
			bits += man
			u, err := strconv.ParseUint(bits, 2, 64)
			if err != nil {
				return "", false
			}
			return fmt.Sprintf("math.Float64frombits(0x%x) /* %g */", u, math.Float64frombits(u)), true
		}
		r, ok := evalRat(v)
		if !ok {
			return "", false
		}
		f, _ := r.Float64()
		return strconv.FormatFloat(f, 'g', -1, 64), true
	}
	return "", false
}

// evalRat evaluates numerals, (- x), (/ a b), (+ ...), (* ...).
func evalRat(v string) (*big.Rat, bool) {
	v = strings.TrimSpace(v)
	if !strings.HasPrefix(v, "(") {
		r, ok := new(big.Rat).SetString(v)
		return r, ok
	}
	inner := strings.TrimSpace(v[1 : len(v)-1])
	parts := splitSexprs(inner)
	if len(parts) < 2 {
		return nil, false
	}
	var args []*big.Rat
	for _, p := range parts[1:] {
		r, ok := evalRat(p)
		if !ok {
			return nil, false
		}
		args = append(args, r)
	}
	switch parts[0] {
	case "-":
		if len(args) == 1 {
			return new(big.Rat).Neg(args[0]), true
		}
		r := new(big.Rat).Set(args[0])
		for _, a := range args[1:] {
			r.Sub(r, a)
		}
		return r, true
	case "+":
		r := new(big.Rat)
		for _, a := range args {
			r.Add(r, a)
		}
		return r, true
	case "*":
		r := big.NewRat(1, 1)
		for _, a := range args {
			r.Mul(r, a)
		}
		return r, true
	case "/":
		if len(args) != 2 || args[1].Sign() == 0 {
			return nil, false
		}
		return new(big.Rat).Quo(args[0], args[1]), true
	case "to_real", "to_int":
		return args[0], true
	}
	return nil, false
}

type replayOutcome struct {
	Tried   bool
	Failed  bool // the real code misbehaved on the model's input
	Source  string
	Output  string
	Inputs  string
	Comment string
}

// replayModel materialises the model of a sat obligation into a call of the real function.
func (e *Engine) replayModel(res *FuncResult, o *Obl, repo, oracleDir, dir string) replayOutcome {
	vc := res.VC
	fn := vc.fn
	out := replayOutcome{}
	if o.Status != "sat" {
		out.Comment = "no model (solver status " + o.Status + ")"
		return out
	}
	varName := ""
	if strings.HasPrefix(res.Key, "var ") {
		bk := baseKey(res.Key)
		varName = bk[strings.LastIndex(bk, ".")+1:]
	}
	if fn.Signature.Recv() == nil && fn.Parent() != nil && varName == "" {
		out.Comment = "anonymous function"
		return out
	}
	type param struct {
		name string
		typ  types.Type
	}
	var ps []param
	for _, p := range fn.Params {
		if !materialisable(p.Type()) {
			out.Comment = fmt.Sprintf("parameter %s of type %s is not materialisable by the generic replayer", p.Name(), p.Type())
			return out
		}
		ps = append(ps, param{p.Name(), p.Type()})
	}
	e.setFloatMode(vc.fc)
	// phase 1: lengths
	fr0params := map[string]Val{}
	for _, p := range fn.Params {
		// parameter values were bound in Verify as fresh "p.<name>" constants; recover via declared names
		fr0params[p.Name()] = vc.paramVal(p.Name(), p.Type())
	}
	var lenTerms []string
	for _, p := range ps {
		if _, ok := p.typ.Underlying().(*types.Slice); ok {
			lenTerms = append(lenTerms, fr0params[p.name].sLen().String())
		}
	}
	var extra []string
	for _, lt := range lenTerms {
		extra = append(extra, "(<= "+lt+" 8)")
	}
	vals, ok := vc.getValues(o, extra, lenTerms, dir)
	if !ok {
		extra = nil
		vals, ok = vc.getValues(o, nil, lenTerms, dir)
		if !ok {
			out.Comment = "model could not be re-obtained for value extraction"
			return out
		}
	}
	// phase 2: all scalar values and elements
	var terms []string
	type slot struct {
		param string
		idx   int // -1 scalar
		typ   types.Type
	}
	var slots []slot
	for _, p := range ps {
		v := fr0params[p.name]
		if sl, ok := p.typ.Underlying().(*types.Slice); ok {
			r, ok2 := evalRat(vals[v.sLen().String()])
			if !ok2 {
				out.Comment = "cannot read slice length from the model"
				return out
			}
			n := int(r.Num().Int64())
			if n > 64 {
				out.Comment = fmt.Sprintf("model slice too long (%d)", n)
				return out
			}
			extra = append(extra, fmt.Sprintf("(= %s %d)", v.sLen(), n))
			mem := smtName("M."+typeKey(sl.Elem())) + "!0"
			if _, declared := vc.sorts[mem]; !declared {
				ls := vc.e.layout(sl.Elem())
				d := "(declare-const " + mem + " " + ArrSort("Int", ArrSort("Int", ls[0].Sort)) + ")"
				if !containsStr(vc.extraDecls, d) {
					vc.extraDecls = append(vc.extraDecls, d)
				}
			}
			for i := 0; i < n; i++ {
				terms = append(terms, fmt.Sprintf("(select (select %s %s) (+ %s %d))", mem, v.sBase(), v.sOff(), i))
				slots = append(slots, slot{p.name, i, sl.Elem()})
			}
			if n == 0 {
				slots = append(slots, slot{p.name, -2, sl.Elem()})
			}
		} else {
			terms = append(terms, v.T().String())
			slots = append(slots, slot{p.name, -1, p.typ})
		}
	}
	vals2 := map[string]string{}
	if len(terms) > 0 {
		vals2, ok = vc.getValues(o, extra, terms, dir)
		if !ok {
			out.Comment = "model values could not be extracted"
			return out
		}
	}
	lits := map[string][]string{}
	scal := map[string]string{}
	ti := 0
	for _, s := range slots {
		if s.idx == -2 {
			lits[s.param] = []string{}
			continue
		}
		g, ok := smtToGo(vals2[terms[ti]], s.typ)
		if !ok {
			out.Comment = "cannot render model value " + vals2[terms[ti]]
			return out
		}
		ti++
		if s.idx == -1 {
			scal[s.param] = g
		} else {
			lits[s.param] = append(lits[s.param], g)
		}
	}
	// build the call
	pkgName := fn.Pkg.Pkg.Name()
	qual := func(t types.Type) string {
		return types.TypeString(t, func(p *types.Package) string {
			if p == fn.Pkg.Pkg {
				return ""
			}
			return p.Name()
		})
	}
	var decl, args []string
	for _, p := range ps {
		if _, ok := p.typ.Underlying().(*types.Slice); ok {
			decl = append(decl, fmt.Sprintf("\tvar %s %s = %s{%s}", "in_"+p.name, qual(p.typ), qual(p.typ), strings.Join(lits[p.name], ", ")))
		} else {
			decl = append(decl, fmt.Sprintf("\tvar %s %s = %s(%s)", "in_"+p.name, qual(p.typ), qual(p.typ), scal[p.name]))
		}
		args = append(args, "in_"+p.name)
	}
	call := ""
	fname := fn.Name()
	if varName != "" {
		fname = varName
	}
	oracleName := "verifOracle_" + fname
	if fn.Signature.Recv() != nil {
		rt := fn.Signature.Recv().Type()
		rn := rt
		if pt, ok := rt.(*types.Pointer); ok {
			rn = pt.Elem()
		}
		oracleName = "verifOracle_" + rn.(*types.Named).Obj().Name() + "_" + fname
		call = args[0] + "." + fname + "(" + strings.Join(args[1:], ", ") + ")"
	} else {
		call = fname + "(" + strings.Join(args, ", ") + ")"
	}
	nres := fn.Signature.Results().Len()
	var rnames []string
	for i := 0; i < nres; i++ {
		rnames = append(rnames, fmt.Sprintf("r%d", i))
	}
	hasOracle := oracleExists(oracleDir, oracleName)
	ostmts, nchecked, skipped := e.goOracle(vc.fc, fn)
	var src strings.Builder
	fmt.Fprintf(&src, "package %s\n\nimport (\n\t\"math\"\n\t\"reflect\"\n\t\"testing\"\n\t\"unsafe\"\n)\n\nvar _ = math.NaN\nvar _ = reflect.TypeOf\nvar _ unsafe.Pointer\n\n", pkgName)
	fmt.Fprintf(&src, "// replay of obligation %s\nfunc TestVerifReplayModel(t *testing.T) {\n", o.Name)
	src.WriteString("\tdefer func() {\n\t\tif r := recover(); r != nil {\n\t\t\tt.Fatalf(\"REPLAY-FAIL panic: %v\", r)\n\t\t}\n\t}()\n")
	src.WriteString(strings.Join(decl, "\n") + "\n")
	for _, a := range args {
		fmt.Fprintf(&src, "\tvar old_%s interface{} = verifSnapshot(%s)\n\t_ = old_%s\n", strings.TrimPrefix(a, "in_"), a, strings.TrimPrefix(a, "in_"))
	}
	if nres > 0 {
		fmt.Fprintf(&src, "\t%s := %s\n", strings.Join(rnames, ", "), call)
		fmt.Fprintf(&src, "\tt.Logf(\"REPLAY-RESULT %%v\", []interface{}{%s})\n", strings.Join(rnames, ", "))
	} else {
		fmt.Fprintf(&src, "\t%s\n", call)
	}
	if hasOracle {
		fmt.Fprintf(&src, "\tif err := %s(%s); err != nil {\n\t\tt.Fatalf(\"REPLAY-FAIL oracle: %%v\", err)\n\t}\n", oracleName, strings.Join(append(args, rnames...), ", "))
	}
	if nchecked > 0 {
		src.WriteString("\tvar fails []string\n" + ostmts)
		src.WriteString("\tif len(fails) > 0 {\n\t\tt.Fatalf(\"REPLAY-FAIL the contract is violated on the real code: %v\", fails)\n\t}\n")
	}
	for _, sk := range skipped {
		fmt.Fprintf(&src, "\t// clause not executable: %s\n", strings.ReplaceAll(sk, "\n", " "))
	}
	src.WriteString("}\n")
	src.WriteString(oraclePrelude)
	out.Source = src.String()
	out.Inputs = strings.Join(decl, "\n")
	// run it
	tmp, err := os.MkdirTemp("", "govc-replay")
	if err != nil {
		out.Comment = err.Error()
		return out
	}
	defer os.RemoveAll(tmp)
	tf := filepath.Join(tmp, "zzverif_replay_test.go")
	os.WriteFile(tf, []byte(out.Source), 0o644)
	pkgDir := filepath.Dir(e.Fset.Position(fn.Pos()).Filename)
	repl := map[string]string{filepath.Join(pkgDir, "zzverif_replay_test.go"): tf}
	rel, _ := filepath.Rel(repo, pkgDir)
	if hasOracle {
		hs, _ := filepath.Glob(filepath.Join(oracleDir, rel, "*_test.go"))
		for _, h := range hs {
			repl[filepath.Join(pkgDir, filepath.Base(h))] = h
		}
	}
	ov, _ := json.Marshal(map[string]interface{}{"Replace": repl})
	ovf := filepath.Join(tmp, "ov.json")
	os.WriteFile(ovf, ov, 0o644)
	cmd := exec.Command("bash", "-c", fmt.Sprintf("ulimit -v 8000000; go test -overlay %s -vet=off -count=1 -timeout 60s -run 'TestVerifReplayModel$' -v ./%s", ovf, rel))
	cmd.Dir = repo
	cmd.Env = append(os.Environ(), "GOFLAGS=-mod=mod", "GOPROXY=off", "GOSUMDB=off", "GOTOOLCHAIN=local")
	b, err := cmd.CombinedOutput()
	out.Tried = true
	out.Output = string(b)
	out.Failed = err != nil && strings.Contains(out.Output, "REPLAY-FAIL")
	if err != nil && !out.Failed {
		out.Comment = "replay test did not run cleanly (build error or timeout)"
	}
	return out
}

func oracleExists(dir, name string) bool {
	found := false
	filepath.Walk(dir, func(p string, info os.FileInfo, err error) error {
		if err != nil || info.IsDir() || !strings.HasSuffix(p, "_test.go") {
			return nil
		}
		b, _ := os.ReadFile(p)
		if strings.Contains(string(b), "func "+name+"(") {
			found = true
		}
		return nil
	})
	return found
}

// paramVal rebuilds the symbolic value bound to a parameter in Verify (fresh "p.<name>..." constants).
func (vc *VC) paramVal(name string, t types.Type) Val {
	v := Val{Typ: t}
	for _, l := range vc.e.layout(t) {
		prefix := smtName("p."+name+l.Path) + "!"
		best := ""
		bestN := 1 << 30
		for n := range vc.sorts {
			if strings.HasPrefix(n, prefix) {
				if k, err := strconv.Atoi(n[len(prefix):]); err == nil && k < bestN {
					best, bestN = n, k
				}
			}
		}
		v.Leaves = append(v.Leaves, A(best))
	}
	return v
}
