package main

// Model materialisation: for functions whose parameters are scalars or slices
// of scalars, the solver model of a failed obligation is turned into a Go test
// that calls the real function (go test -overlay; nothing is written to /repo).

import (
	"encoding/json"
	"fmt"
	"go/types"
	"math"
	"math/big"
	"os"
	"os/exec"
	"path/filepath"
	"regexp"
	"strconv"
	"strings"
)

func simpleScalar(t types.Type) bool {
	b, ok := t.Underlying().(*types.Basic)
	if !ok {
		return false
	}
	return b.Info()&(types.IsBoolean|types.IsInteger|types.IsFloat) != 0
}

func materialisable(t types.Type) bool {
	if simpleScalar(t) {
		return true
	}
	if s, ok := t.Underlying().(*types.Slice); ok {
		return simpleScalar(s.Elem())
	}
	return false
}

// getValues runs the obligation script with (get-value ...) for the given terms.
func (vc *VC) getValues(o *Obl, extra []string, terms []string, dir string) (map[string]string, bool) {
	if !vc.noEngineAxioms {
		if m, ok := vc.getValues1(o, extra, terms, dir); ok {
			return m, true
		}
		// models of heavily quantified contexts are often not reproducible: retry without the engine's
		// closure / shape axioms (the replay re-checks the executable preconditions on the result)
		vc.noEngineAxioms = true
	}
	return vc.getValues1(o, extra, terms, dir)
}

func (vc *VC) getValues1(o *Obl, extra []string, terms []string, dir string) (map[string]string, bool) {
	var sb strings.Builder
	sb.WriteString("(set-option :produce-models true)\n(set-logic ALL)\n")
	sb.WriteString(vc.preambleFor(vc.usesMS(o.CtxLen, o.Goal)))
	for _, d := range vc.extraDecls {
		sb.WriteString(d + "\n")
	}
	for _, c := range vc.cmds[:o.CtxLen] {
		if vc.noEngineAxioms && strings.HasSuffix(c, ";E") {
			continue
		}
		sb.WriteString(c)
		sb.WriteByte('\n')
	}
	sb.WriteString("(assert (not " + o.Goal.String() + "))\n")
	for _, x := range extra {
		sb.WriteString("(assert " + x + ")\n")
	}
	sb.WriteString("(check-sat)\n")
	for _, t := range terms {
		sb.WriteString("(get-value (" + t + "))\n")
	}
	file := filepath.Join(dir, "model_"+smtName(o.Name)+".smt2")
	os.WriteFile(file, []byte(sb.String()), 0o644)
	// the solver that found the model goes first
	order := []solverSpec{}
	pref := o.Solver
	if vc.valueSolver != "" {
		pref = vc.valueSolver // the solver that answered the previous value query
	}
	for _, sp := range solvers {
		if sp.Name == pref {
			order = append(order, sp)
		}
	}
	for _, sp := range solvers {
		if sp.Name != pref {
			order = append(order, sp)
		}
	}
	var r solveOut
	for i, sp := range order {
		to := 4
		if i > 0 {
			to = 3
		}
		r = runSolver(sp, file, to)
		if r.status == "sat" {
			break
		}
		// an "unknown" answer still comes with a candidate model; the replay on the real code is the judge
		if r.status == "unknown" && strings.Contains(r.output, "((") && !strings.Contains(r.output, "(error") {
			break
		}
	}
	if r.status != "sat" && r.status != "unknown" {
		return nil, false
	}
	vc.valueSolver = r.solver
	lines := strings.Split(r.output, "\n")
	// join everything after the first line and split top-level s-expressions
	vals := splitSexprs(strings.Join(lines[1:], " "))
	out := map[string]string{}
	for i, t := range terms {
		if i < len(vals) {
			// vals[i] = ((term value))
			v := strings.TrimSpace(vals[i])
			v = strings.TrimPrefix(v, "(")
			v = strings.TrimSuffix(v, ")")
			v = strings.TrimSpace(v)
			v = strings.TrimPrefix(v, "(")
			v = strings.TrimSuffix(v, ")")
			// drop the echoed term
			inner := splitSexprs(v)
			if len(inner) >= 2 {
				out[t] = strings.TrimSpace(inner[len(inner)-1])
			}
		}
	}
	return out, true
}

func splitSexprs(s string) []string {
	var out []string
	depth := 0
	start := -1
	for i := 0; i < len(s); i++ {
		c := s[i]
		switch {
		case c == '(':
			if depth == 0 && start < 0 {
				start = i
			}
			depth++
		case c == ')':
			depth--
			if depth == 0 && start >= 0 {
				out = append(out, s[start:i+1])
				start = -1
			}
		case c == ' ' || c == '\t' || c == '\n':
			if depth == 0 && start >= 0 {
				out = append(out, s[start:i])
				start = -1
			}
		default:
			if depth == 0 && start < 0 {
				start = i
			}
		}
	}
	if start >= 0 {
		out = append(out, s[start:])
	}
	return out
}

var fpRe = regexp.MustCompile(`\(fp #b([01]) #b([01]+) #[bx]([0-9a-fA-F]+)\)`)

// smtToGo renders a solver value as a Go literal of the given basic type.
func smtToGo(v string, t types.Type) (string, bool) {
	v = strings.TrimSpace(v)
	b := t.Underlying().(*types.Basic)
	switch {
	case b.Info()&types.IsBoolean != 0:
		return v, v == "true" || v == "false"
	case b.Info()&types.IsInteger != 0:
		r, ok := evalRat(v)
		if !ok || !r.IsInt() {
			return "", false
		}
		return r.Num().String(), true
	case b.Info()&types.IsFloat != 0:
		if strings.Contains(v, "NaN") {
			return "math.NaN()", true
		}
		if strings.Contains(v, "+oo") {
			return "math.Inf(1)", true
		}
		if strings.Contains(v, "-oo") {
			return "math.Inf(-1)", true
		}
		if strings.Contains(v, "+zero") {
			return "0.0", true
		}
		if strings.Contains(v, "-zero") {
			return "math.Copysign(0, -1)", true
		}
		if m := fpRe.FindStringSubmatch(v); m != nil {
			bits := m[1] + m[2]
			man := m[3]
			if strings.Contains(v, "#x"+man) {
				n, _ := new(big.Int).SetString(man, 16)
				man = fmt.Sprintf("%052b", n)
			}
			bits += man
			u, err := strconv.ParseUint(bits, 2, 64)
			if err != nil {
				return "", false
			}
			return fmt.Sprintf("math.Float64frombits(0x%x) /* %g */", u, math.Float64frombits(u)), true
		}
		r, ok := evalRat(v)
		if !ok {
			return "", false
		}
		f, _ := r.Float64()
		return strconv.FormatFloat(f, 'g', -1, 64), true
	}
	return "", false
}

// evalRat evaluates numerals, (- x), (/ a b), (+ ...), (* ...).
func evalRat(v string) (*big.Rat, bool) {
	v = strings.TrimSpace(v)
	if !strings.HasPrefix(v, "(") {
		r, ok := new(big.Rat).SetString(v)
		return r, ok
	}
	inner := strings.TrimSpace(v[1 : len(v)-1])
	parts := splitSexprs(inner)
	if len(parts) < 2 {
		return nil, false
	}
	var args []*big.Rat
	for _, p := range parts[1:] {
		r, ok := evalRat(p)
		if !ok {
			return nil, false
		}
		args = append(args, r)
	}
	switch parts[0] {
	case "-":
		if len(args) == 1 {
			return new(big.Rat).Neg(args[0]), true
		}
		r := new(big.Rat).Set(args[0])
		for _, a := range args[1:] {
			r.Sub(r, a)
		}
		return r, true
	case "+":
		r := new(big.Rat)
		for _, a := range args {
			r.Add(r, a)
		}
		return r, true
	case "*":
		r := big.NewRat(1, 1)
		for _, a := range args {
			r.Mul(r, a)
		}
		return r, true
	case "/":
		if len(args) != 2 || args[1].Sign() == 0 {
			return nil, false
		}
		return new(big.Rat).Quo(args[0], args[1]), true
	case "to_real", "to_int":
		return args[0], true
	}
	return nil, false
}

type replayOutcome struct {
	Tried   bool
	Failed  bool // the real code misbehaved on the model's input
	Source  string
	Output  string
	Inputs  string
	Comment string
}

// replayModel materialises the model of a sat obligation into a call of the real function.
func (e *Engine) replayModel(res *FuncResult, o *Obl, repo, oracleDir, dir string) replayOutcome {
	vc := res.VC
	fn := vc.fn
	out := replayOutcome{}
	if o.Status != "sat" {
		out.Comment = "no model (solver status " + o.Status + ")"
		return out
	}
	varName := ""
	if strings.HasPrefix(res.Key, "var ") {
		bk := baseKey(res.Key)
		varName = bk[strings.LastIndex(bk, ".")+1:]
	}
	if fn.Signature.Recv() == nil && fn.Parent() != nil && varName == "" {
		out.Comment = "anonymous function"
		return out
	}
	e.setFloatMode(vc.fc)
	m := vc.newMater(o, dir)
	pkgName := fn.Pkg.Pkg.Name()
	var decl, args []string
	for _, p := range fn.Params {
		if !nameable(p.Type(), fn.Pkg.Pkg) {
			if _, isIface := p.Type().Underlying().(*types.Interface); !isIface {
				out.Comment = fmt.Sprintf("parameter %s has a type that cannot be named in a test (%s)", p.Name(), p.Type())
				return out
			}
		}
		pv := vc.paramVal(p.Name(), p.Type())
		var leaves []string
		for _, l := range pv.Leaves {
			leaves = append(leaves, l.String())
		}
		expr := m.build(leaves, p.Type())
		if m.err != "" {
			out.Comment = "model not materialisable: " + m.err
			return out
		}
		decl = append(decl, fmt.Sprintf("\tvar in_%s %s\n\tverifAssign(&in_%s, %s)", p.Name(), m.typeStr(p.Type()), p.Name(), expr))
		args = append(args, "in_"+p.Name())
	}
	decl = append(append([]string{}, m.stmts...), decl...)
	for _, n := range m.notes {
		decl = append(decl, "\t// note: "+n)
	}
	call := ""
	fname := fn.Name()
	if varName != "" {
		fname = varName
	}
	oracleName := "verifOracle_" + fname
	if fn.Signature.Recv() != nil {
		rt := fn.Signature.Recv().Type()
		rn := rt
		if pt, ok := rt.(*types.Pointer); ok {
			rn = pt.Elem()
		}
		oracleName = "verifOracle_" + rn.(*types.Named).Obj().Name() + "_" + fname
		call = args[0] + "." + fname + "(" + strings.Join(args[1:], ", ") + ")"
	} else {
		call = fname + "(" + strings.Join(args, ", ") + ")"
	}
	nres := fn.Signature.Results().Len()
	var rnames []string
	for i := 0; i < nres; i++ {
		rnames = append(rnames, fmt.Sprintf("r%d", i))
	}
	hasOracle := oracleExists(oracleDir, oracleName)
	ostmts, nchecked, skipped := e.goOracle(vc.fc, fn)
	pstmts, npre, preSkipped := e.goRequires(vc.fc, fn)
	var src strings.Builder
	fmt.Fprintf(&src, "package %s\n\n%s\nvar _ = math.NaN\nvar _ = reflect.TypeOf\nvar _ unsafe.Pointer\nvar _ = strings.Split\n\n", pkgName, m.importBlock("math", "reflect", "strings", "testing", "unsafe"))
	fmt.Fprintf(&src, "// replay of obligation %s\nfunc TestVerifReplayModel(t *testing.T) {\n", o.Name)
	src.WriteString("\tdefer func() {\n\t\tif r := recover(); r != nil {\n\t\t\tif verifPanicInconclusive {\n\t\t\t\tt.Logf(\"REPLAY-INCONCLUSIVE panic on an input whose precondition could not be fully checked: %v\", r)\n\t\t\t\treturn\n\t\t\t}\n\t\t\tt.Fatalf(\"REPLAY-FAIL panic: %v\", r)\n\t\t}\n\t}()\n")
	src.WriteString(strings.Join(decl, "\n") + "\n")
	for _, a := range args {
		fmt.Fprintf(&src, "\tvar old_%s interface{} = verifSnapshot(%s)\n\t_ = old_%s\n", strings.TrimPrefix(a, "in_"), a, strings.TrimPrefix(a, "in_"))
	}
	_ = pkgName
	for _, a := range args {
		fmt.Fprintf(&src, "\tverifRegister(%s)\n", a)
	}
	if npre > 0 {
		src.WriteString("\t{\n\tvar fails []string\n" + pstmts)
		src.WriteString("\tif len(fails) > 0 {\n\t\tt.Logf(\"REPLAY-INVALID the materialised input does not satisfy the precondition: %v\", fails)\n\t\treturn\n\t}\n\t}\n")
	}
	for _, sk := range preSkipped {
		fmt.Fprintf(&src, "\t// precondition not executable (not checked on this input): %s\n", strings.ReplaceAll(sk, "\n", " "))
	}
	if len(preSkipped) > 0 {
		src.WriteString("\tverifPanicInconclusive = true\n")
	}
	if nres > 0 {
		fmt.Fprintf(&src, "\t%s := %s\n", strings.Join(rnames, ", "), call)
		fmt.Fprintf(&src, "\tt.Logf(\"REPLAY-RESULT %%v\", []interface{}{%s})\n", strings.Join(rnames, ", "))
	} else {
		fmt.Fprintf(&src, "\t%s\n", call)
	}
	if hasOracle {
		fmt.Fprintf(&src, "\tif err := %s(%s); err != nil {\n\t\tt.Fatalf(\"REPLAY-FAIL oracle: %%v\", err)\n\t}\n", oracleName, strings.Join(append(args, rnames...), ", "))
	}
	for _, rn := range rnames {
		fmt.Fprintf(&src, "\tverifRegister(%s)\n", rn)
	}
	for _, a := range args {
		fmt.Fprintf(&src, "\tverifRegister(%s)\n", a)
	}
	if nchecked > 0 {
		src.WriteString("\tvar fails []string\n" + ostmts)
		src.WriteString("\tif len(fails) > 0 {\n\t\tt.Fatalf(\"REPLAY-FAIL the contract is violated on the real code: %v\", fails)\n\t}\n")
	}
	for _, sk := range skipped {
		fmt.Fprintf(&src, "\t// clause not executable: %s\n", strings.ReplaceAll(sk, "\n", " "))
	}
	src.WriteString("}\n")
	src.WriteString("\nvar verifPanicInconclusive = false\n")
	src.WriteString(oraclePrelude)
	src.WriteString(materPrelude)
	out.Source = src.String()
	out.Inputs = strings.Join(decl, "\n")
	// run it
	tmp, err := os.MkdirTemp("", "govc-replay")
	if err != nil {
		out.Comment = err.Error()
		return out
	}
	defer os.RemoveAll(tmp)
	tf := filepath.Join(tmp, "zzverif_replay_test.go")
	os.WriteFile(tf, []byte(out.Source), 0o644)
	pkgDir := filepath.Dir(e.Fset.Position(fn.Pos()).Filename)
	repl := map[string]string{filepath.Join(pkgDir, "zzverif_replay_test.go"): tf}
	rel, _ := filepath.Rel(repo, pkgDir)
	if hasOracle {
		hs, _ := filepath.Glob(filepath.Join(oracleDir, rel, "*_test.go"))
		for _, h := range hs {
			repl[filepath.Join(pkgDir, filepath.Base(h))] = h
		}
	}
	ov, _ := json.Marshal(map[string]interface{}{"Replace": repl})
	ovf := filepath.Join(tmp, "ov.json")
	os.WriteFile(ovf, ov, 0o644)
	cmd := exec.Command("bash", "-c", fmt.Sprintf("ulimit -v 8000000; go test -overlay %s -vet=off -count=1 -timeout 60s -run 'TestVerifReplayModel$' -v ./%s", ovf, rel))
	cmd.Dir = repo
	cmd.Env = append(os.Environ(), "GOFLAGS=-mod=mod", "GOPROXY=off", "GOSUMDB=off", "GOTOOLCHAIN=local")
	b, err := cmd.CombinedOutput()
	out.Tried = true
	out.Output = string(b)
	out.Failed = err != nil && strings.Contains(out.Output, "REPLAY-FAIL")
	if err != nil && !out.Failed {
		out.Comment = "replay test did not run cleanly (build error or timeout)"
	}
	return out
}

func oracleExists(dir, name string) bool {
	found := false
	filepath.Walk(dir, func(p string, info os.FileInfo, err error) error {
		if err != nil || info.IsDir() || !strings.HasSuffix(p, "_test.go") {
			return nil
		}
		b, _ := os.ReadFile(p)
		if strings.Contains(string(b), "func "+name+"(") {
			found = true
		}
		return nil
	})
	return found
}

// paramVal rebuilds the symbolic value bound to a parameter in Verify (fresh "p.<name>..." constants).
func (vc *VC) paramVal(name string, t types.Type) Val {
	v := Val{Typ: t}
	for _, l := range vc.e.layout(t) {
		prefix := smtName("p."+name+l.Path) + "!"
		best := ""
		bestN := 1 << 30
		for n := range vc.sorts {
			if strings.HasPrefix(n, prefix) {
				if k, err := strconv.Atoi(n[len(prefix):]); err == nil && k < bestN {
					best, bestN = n, k
				}
			}
		}
		v.Leaves = append(v.Leaves, A(best))
	}
	return v
}
