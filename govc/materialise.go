package main

// Materialisation of solver models into Go values: the object graph reachable
// from a function's parameters in the pre-state is rebuilt as Go source, driven
// by the parameters' Go types. Values are read with (get-value) and pinned, so
// that all reads come from one model.

import (
	"fmt"
	"go/types"
	"sort"
	"strconv"
	"strings"
	"time"
)

type mater struct {
	vc      *VC
	e       *Engine
	o       *Obl
	dir     string
	pins    []string
	objs    map[string]string // typeKey#ref -> go variable
	stmts   []string
	notes   []string
	imports map[string]string // import path -> alias
	pkg     *types.Package
	nobj    int
	nq      int
	err     string
	strRev  map[int]string
	start   time.Time
}

const maxMatObjects = 48
const maxMatSlice = 8

func (vc *VC) newMater(o *Obl, dir string) *mater {
	m := &mater{vc: vc, e: vc.e, o: o, dir: dir, objs: map[string]string{}, imports: map[string]string{}, strRev: map[int]string{}}
	if vc.fn != nil {
		m.pkg = vc.fn.Pkg.Pkg
	}
	for s, id := range vc.e.strIDs {
		if !strings.HasPrefix(s, "func:") {
			m.strRev[id] = s
		}
	}
	return m
}

func (m *mater) fail(format string, args ...interface{}) {
	if m.err == "" {
		m.err = fmt.Sprintf(format, args...)
	}
}

// declared makes sure an initial-state variable is declared in the value queries.
func (m *mater) initVar(name, srt string) string {
	n := smtName(name) + "!0"
	if _, ok := m.vc.sorts[n]; !ok {
		d := "(declare-const " + n + " " + srt + ")"
		if !containsStr(m.vc.extraDecls, d) {
			m.vc.extraDecls = append(m.vc.extraDecls, d)
		}
	} else {
		// declared, but possibly after this obligation's context
		found := false
		pfx := "(declare-const " + n + " "
		for _, c := range m.vc.cmds[:m.o.CtxLen] {
			if strings.HasPrefix(c, pfx) {
				found = true
				break
			}
		}
		if !found {
			d := pfx + srt + ")"
			if !containsStr(m.vc.extraDecls, d) {
				m.vc.extraDecls = append(m.vc.extraDecls, d)
			}
		}
	}
	return n
}

// query evaluates terms in the pinned model and pins the answers.
func (m *mater) query(terms []string, caps []string) []string {
	if m.err != "" || len(terms) == 0 {
		return make([]string, len(terms))
	}
	m.nq++
	if m.start.IsZero() {
		m.start = time.Now()
	}
	if time.Since(m.start) > 40*time.Second {
		m.fail("value extraction exceeded its 40 s budget")
		return make([]string, len(terms))
	}
	if m.nq > 400 {
		m.fail("model too large to materialise (more than 400 value queries)")
		return make([]string, len(terms))
	}
	vals, ok := m.vc.getValues(m.o, append(append([]string{}, m.pins...), caps...), terms, m.dir)
	if !ok && len(caps) > 0 {
		vals, ok = m.vc.getValues(m.o, m.pins, terms, m.dir)
	}
	if !ok {
		m.fail("the solver did not reproduce the model while reading values")
		return make([]string, len(terms))
	}
	out := make([]string, len(terms))
	for i, t := range terms {
		out[i] = vals[t]
		if out[i] == "" {
			m.fail("no value for %s", t)
			continue
		}
		if !strings.Contains(out[i], "lambda") && !strings.Contains(out[i], "as const") && !strings.Contains(out[i], "store") {
			m.pins = append(m.pins, "(= "+t+" "+out[i]+")")
		}
	}
	return out
}

func (m *mater) qual(p *types.Package) string {
	if p == m.pkg || p == nil {
		return ""
	}
	if a, ok := m.imports[p.Path()]; ok {
		return a
	}
	a := p.Name()
	switch a {
	case "math", "reflect", "testing", "unsafe":
		a = "x" + a
	}
	for _, used := range m.imports {
		if used == a {
			a = a + strconv.Itoa(len(m.imports))
		}
	}
	m.imports[p.Path()] = a
	return a
}

func (m *mater) typeStr(t types.Type) string { return types.TypeString(t, m.qual) }

func nameable(t types.Type, pkg *types.Package) bool {
	switch t := t.(type) {
	case *types.Named:
		o := t.Obj()
		return o.Pkg() == nil || o.Pkg() == pkg || o.Exported()
	case *types.Pointer:
		return nameable(t.Elem(), pkg)
	case *types.Slice:
		return nameable(t.Elem(), pkg)
	case *types.Basic:
		return true
	case *types.Map:
		return nameable(t.Key(), pkg) && nameable(t.Elem(), pkg)
	}
	return false
}

func intOf(v string) (int64, bool) {
	r, ok := evalRat(v)
	if !ok || !r.IsInt() {
		return 0, false
	}
	return r.Num().Int64(), true
}

// lit renders a scalar leaf value as an untyped Go expression.
func (m *mater) lit(v string, l Leaf) string {
	switch l.Kind {
	case "bool":
		if v == "true" || v == "false" {
			return v
		}
	case "int":
		if n, ok := intOf(v); ok {
			return strconv.FormatInt(n, 10)
		}
	case "float":
		if g, ok := smtToGo(v, tFloat64); ok {
			return "float64(" + g + ")"
		}
	case "string":
		if n, ok := intOf(v); ok {
			if s, ok := m.strRev[int(n)]; ok {
				return strconv.Quote(s)
			}
			return strconv.Quote(fmt.Sprintf("s%d", n))
		}
	}
	m.fail("cannot render model value %q", v)
	return "nil"
}

// build returns a Go expression (of dynamic type) for the value with the given leaf terms.
func (m *mater) build(leaves []string, t types.Type) string {
	if m.err != "" {
		return "nil"
	}
	ls := m.e.layout(t)
	switch u := t.Underlying().(type) {
	case *types.Basic:
		vals := m.query(leaves[:1], nil)
		if m.err != "" {
			return "nil"
		}
		return m.lit(vals[0], ls[0])
	case *types.Pointer:
		vals := m.query(leaves[:1], nil)
		if m.err != "" {
			return "nil"
		}
		r, ok := intOf(vals[0])
		if !ok {
			m.fail("cannot read reference %q", vals[0])
			return "nil"
		}
		if r == 0 {
			return "nil"
		}
		return m.object(r, u.Elem())
	case *types.Slice:
		return m.slice(leaves, u)
	case *types.Map:
		vals := m.query(leaves[:1], nil)
		if m.err != "" {
			return "nil"
		}
		if r, _ := intOf(vals[0]); r == 0 {
			return "nil"
		}
		m.notes = append(m.notes, "map contents are not materialised (empty map used)")
		return "verifEmptyMap{}"
	case *types.Struct:
		// struct value: an anonymous holder object whose fields are filled, then dereferenced by the setter
		if !nameable(t, m.pkg) {
			return "nil"
		}
		m.nobj++
		name := fmt.Sprintf("sv%d", m.nobj)
		m.stmts = append(m.stmts, fmt.Sprintf("\t%s := new(%s)", name, m.typeStr(t)))
		m.fillStruct(name, "", u, func(path string, l Leaf) string { return leaves[leafIndex(m.e, t, path+l.Path)] })
		return "verifStructVal{" + name + "}"
	case *types.Interface, *types.Signature, *types.Chan:
		return "nil"
	}
	return "nil"
}

func leafIndex(e *Engine, t types.Type, path string) int {
	for i, l := range e.layout(t) {
		if l.Path == path {
			return i
		}
	}
	return 0
}

func (m *mater) object(r int64, elem types.Type) string {
	key := fmt.Sprintf("%s#%d", typeKey(elem), r)
	if v, ok := m.objs[key]; ok {
		return v
	}
	if !nameable(elem, m.pkg) {
		m.notes = append(m.notes, "object of unnameable type "+elem.String()+" left nil")
		return "nil"
	}
	if m.nobj >= maxMatObjects {
		m.notes = append(m.notes, "object graph truncated (more than "+strconv.Itoa(maxMatObjects)+" objects): remaining pointers are nil")
		return "nil"
	}
	m.nobj++
	name := fmt.Sprintf("o%d", m.nobj)
	m.objs[key] = name
	m.stmts = append(m.stmts, fmt.Sprintf("\t%s := new(%s) // ref %d", name, m.typeStr(elem), r))
	st, ok := elem.Underlying().(*types.Struct)
	if !ok {
		// boxed scalar
		ls := m.e.layout(elem)
		var terms []string
		for _, l := range ls {
			n := m.initVar("H.box."+typeKey(elem)+l.Path, ArrSort("Int", l.Sort))
			terms = append(terms, fmt.Sprintf("(select %s %d)", n, r))
		}
		v := m.build(terms, elem)
		m.stmts = append(m.stmts, fmt.Sprintf("\tverifAssign(%s, %s)", name, v))
		return name
	}
	root := "H." + typeKey(elem)
	m.fillStruct(name, "", st, func(path string, l Leaf) string {
		n := m.initVar(root+path+l.Path, ArrSort("Int", l.Sort))
		return fmt.Sprintf("(select %s %d)", n, r)
	})
	return name
}

// fillStruct sets every field of the object held in Go variable `name`.
func (m *mater) fillStruct(name, path string, st *types.Struct, term func(path string, l Leaf) string) {
	for i := 0; i < st.NumFields(); i++ {
		f := st.Field(i)
		fp := path + "." + f.Name()
		if sub, ok := f.Type().Underlying().(*types.Struct); ok {
			if _, isNamedSync := f.Type().(*types.Named); isNamedSync && f.Type().(*types.Named).Obj().Pkg() != nil && f.Type().(*types.Named).Obj().Pkg().Path() == "sync" {
				continue
			}
			m.fillStruct(name, fp, sub, term)
			continue
		}
		var terms []string
		for _, l := range m.e.layout(f.Type()) {
			terms = append(terms, term(fp, l))
		}
		v := m.build(terms, f.Type())
		if m.err != "" {
			return
		}
		if v == "nil" || v == "0" || v == "false" || v == `""` || v == "float64(0)" {
			continue
		}
		m.stmts = append(m.stmts, fmt.Sprintf("\tverifSet(%s, %q, %s)", name, strings.TrimPrefix(fp, "."), v))
	}
}

func (m *mater) slice(leaves []string, u *types.Slice) string {
	hdr := m.query(leaves[:4], []string{"(<= " + leaves[2] + " " + strconv.Itoa(maxMatSlice) + ")"})
	if m.err != "" {
		return "nil"
	}
	b, ok1 := intOf(hdr[0])
	off, ok2 := intOf(hdr[1])
	n, ok3 := intOf(hdr[2])
	if !ok1 || !ok2 || !ok3 {
		m.fail("cannot read slice header")
		return "nil"
	}
	if b == 0 {
		return "nil"
	}
	if n > 64 {
		m.fail("model slice too long (%d)", n)
		return "nil"
	}
	el := u.Elem()
	ls := m.e.layout(el)
	var elems []string
	for i := int64(0); i < n; i++ {
		var terms []string
		for _, l := range ls {
			mem := m.initVar("M."+typeKey(el)+l.Path, ArrSort("Int", ArrSort("Int", l.Sort)))
			terms = append(terms, fmt.Sprintf("(select (select %s %d) %d)", mem, b, off+i))
		}
		elems = append(elems, m.build(terms, el))
		if m.err != "" {
			return "nil"
		}
	}
	c, _ := intOf(hdr[3])
	spare := c - n
	if spare < 0 || spare > 4 {
		spare = 0
	}
	return fmt.Sprintf("verifElems{extraCap: %d, elems: []interface{}{%s}}", spare, strings.Join(elems, ", "))
}

func (m *mater) importBlock(extra ...string) string {
	var lines []string
	for _, x := range extra {
		lines = append(lines, "\t"+strconv.Quote(x))
	}
	var paths []string
	for p := range m.imports {
		paths = append(paths, p)
	}
	sort.Strings(paths)
	for _, p := range paths {
		lines = append(lines, "\t"+m.imports[p]+" "+strconv.Quote(p))
	}
	return "import (\n" + strings.Join(lines, "\n") + "\n)\n"
}

const materPrelude = `
type verifElems struct {
	extraCap int
	elems    []interface{}
}
type verifEmptyMap struct{}
type verifStructVal struct{ p interface{} }

// verifConv converts a materialised value to the static type of the slot it goes into.
func verifConv(v interface{}, t reflect.Type) reflect.Value {
	switch x := v.(type) {
	case nil:
		return reflect.Zero(t)
	case verifElems:
		s := reflect.MakeSlice(t, len(x.elems), len(x.elems)+x.extraCap)
		for i, e := range x.elems {
			s.Index(i).Set(verifConv(e, t.Elem()))
		}
		return s
	case verifEmptyMap:
		return reflect.MakeMap(t)
	case verifStructVal:
		return reflect.ValueOf(x.p).Elem()
	}
	rv := reflect.ValueOf(v)
	if rv.Type() != t && rv.Type().ConvertibleTo(t) {
		return rv.Convert(t)
	}
	return rv
}

func verifSet(obj interface{}, path string, v interface{}) {
	f := reflect.ValueOf(obj).Elem()
	for _, name := range strings.Split(path, ".") {
		f = f.FieldByName(name)
		if !f.IsValid() {
			panic("verif: no field " + path)
		}
	}
	f = verifSettable(f)
	f.Set(verifConv(v, f.Type()))
}

// verifAssign stores a materialised value through a typed pointer.
func verifAssign(ptr interface{}, v interface{}) {
	e := reflect.ValueOf(ptr).Elem()
	e.Set(verifConv(v, e.Type()))
}
`
