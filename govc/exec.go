package main

import (
	"fmt"
	"go/ast"
	"go/constant"
	"go/token"
	"go/types"
	"sort"
	"strings"

	"golang.org/x/tools/go/ssa"
)

type Loop struct {
	Header  *ssa.BasicBlock
	Blocks  map[*ssa.BasicBlock]bool
	Ordinal int
	Pos     token.Pos
	Node    ast.Node
}

type loopInfo struct {
	loops    map[*ssa.BasicBlock]*Loop // by header
	backEdge map[[2]int]bool
	order    []*ssa.BasicBlock // reverse postorder ignoring back edges
	err      string
}

var loopCache = map[*ssa.Function]*loopInfo{}

func analyzeLoops(fn *ssa.Function) *loopInfo {
	if li, ok := loopCache[fn]; ok {
		return li
	}
	li := &loopInfo{loops: map[*ssa.BasicBlock]*Loop{}, backEdge: map[[2]int]bool{}}
	loopCache[fn] = li
	if len(fn.Blocks) == 0 {
		return li
	}
	for _, b := range fn.Blocks {
		for _, s := range b.Succs {
			if s.Dominates(b) {
				li.backEdge[[2]int{b.Index, s.Index}] = true
				l := li.loops[s]
				if l == nil {
					l = &Loop{Header: s, Blocks: map[*ssa.BasicBlock]bool{s: true}}
					li.loops[s] = l
				}
				// natural loop body: nodes that reach b without passing s
				stack := []*ssa.BasicBlock{b}
				for len(stack) > 0 {
					x := stack[len(stack)-1]
					stack = stack[:len(stack)-1]
					if l.Blocks[x] {
						continue
					}
					l.Blocks[x] = true
					for _, p := range x.Preds {
						stack = append(stack, p)
					}
				}
			}
		}
	}
	// reverse postorder ignoring back edges
	seen := map[*ssa.BasicBlock]bool{}
	var post []*ssa.BasicBlock
	var dfs func(b *ssa.BasicBlock)
	dfs = func(b *ssa.BasicBlock) {
		seen[b] = true
		for _, s := range b.Succs {
			if li.backEdge[[2]int{b.Index, s.Index}] || seen[s] {
				continue
			}
			dfs(s)
		}
		post = append(post, b)
	}
	dfs(fn.Blocks[0])
	if fn.Recover != nil && !seen[fn.Recover] {
		// recover block unreachable in normal flow: ignore
	}
	for i := len(post) - 1; i >= 0; i-- {
		li.order = append(li.order, post[i])
	}
	// map to AST loops
	aloops := astLoops(fn)
	for _, l := range li.loops {
		var minP, maxP token.Pos
		for b := range l.Blocks {
			for _, in := range b.Instrs {
				p := in.Pos()
				if !p.IsValid() {
					continue
				}
				if _, isAlloc := in.(*ssa.Alloc); isAlloc {
					continue
				}
				if !minP.IsValid() || p < minP {
					minP = p
				}
				if p > maxP {
					maxP = p
				}
			}
		}
		best := -1
		for i, n := range aloops {
			if minP.IsValid() && n.Pos() <= minP && maxP <= n.End() {
				if best < 0 || (aloops[best].End()-aloops[best].Pos()) > (n.End()-n.Pos()) {
					best = i
				}
			}
		}
		if best < 0 {
			li.err = fmt.Sprintf("cannot map loop at block %d to a source loop", l.Header.Index)
			continue
		}
		l.Ordinal = best + 1
		l.Pos = aloops[best].Pos()
		l.Node = aloops[best]
	}
	// two SSA loops mapped to the same AST loop is an error
	seenOrd := map[int]bool{}
	for _, l := range li.loops {
		if l.Ordinal > 0 && seenOrd[l.Ordinal] {
			li.err = fmt.Sprintf("two CFG loops map to source loop %d", l.Ordinal)
		}
		seenOrd[l.Ordinal] = true
	}
	return li
}

type retInfo struct {
	reach *Term
	st    *State
	vals  []Val
	block *ssa.BasicBlock
	pos   token.Pos
}

type Frame struct {
	ghostArgs    []Val
	vc           *VC
	fn           *ssa.Function
	id           string
	env          map[ssa.Value]Val
	params       map[string]Val
	pnames       []string
	entry        *State // state at function entry (for old())
	depth        int
	top          bool
	fc           *FuncContract
	defers       []*ssa.Defer
	rets         []retInfo
	site         string // label suffix for obligations inside inlined frames
	sitePos      token.Pos
	rangeIdx     map[*ssa.BasicBlock]*ssa.Alloc
	edgeReach    map[[2]int]*Term
	ghostResults []Val // results of the call a ghost "after" statement is attached to
}

type contrib struct {
	reach *Term
	st    *State
}

func (vc *VC) newFrame(fn *ssa.Function, depth int) *Frame {
	vc.frames++
	id := fmt.Sprintf("f%d", vc.frames)
	if depth == 0 {
		id = "f"
	}
	return &Frame{vc: vc, fn: fn, id: id, env: map[ssa.Value]Val{}, params: map[string]Val{}, depth: depth, rangeIdx: map[*ssa.BasicBlock]*ssa.Alloc{}, edgeReach: map[[2]int]*Term{}}
}

func (fr *Frame) pos(p token.Pos) token.Pos {
	if fr.depth > 0 && fr.sitePos.IsValid() {
		return fr.sitePos
	}
	return p
}

func (fr *Frame) lbl(s string) string {
	if fr.site != "" {
		if s == "" {
			return fr.site
		}
		return fr.site + "." + s
	}
	return s
}

// run executes the body from the given entry state; returns the normal-return contributions.
func (fr *Frame) run(entryReach *Term, entry *State) []retInfo {
	vc := fr.vc
	fn := fr.fn
	li := analyzeLoops(fn)
	if li.err != "" && fr.depth == 0 {
		vc.Errors = append(vc.Errors, li.err)
	}
	in := map[*ssa.BasicBlock][]contrib{}
	in[fn.Blocks[0]] = []contrib{{entryReach, entry}}
	for _, b := range li.order {
		cs := in[b]
		if len(cs) == 0 {
			continue
		}
		if fr.depth == 0 {
			vc.curBlock = b
			vc.blockMarks = append(vc.blockMarks, blockMark{len(vc.cmds), b})
			if vc.cfReach == nil {
				vc.cfReach = acyclicReach(fn, li)
			}
		}
		reach, st := fr.merge(b, cs)
		if l := li.loops[b]; l != nil {
			reach, st = fr.loopHead(l, reach, st)
		}
		fr.block(b, reach, st, li, in)
	}
	return fr.rets
}

func (fr *Frame) merge(b *ssa.BasicBlock, cs []contrib) (*Term, *State) {
	vc := fr.vc
	if len(cs) == 1 {
		return cs[0].reach, cs[0].st.clone()
	}
	var rs []*Term
	for _, c := range cs {
		rs = append(rs, c.reach)
	}
	reach := vc.define(fmt.Sprintf("reach.%s.b%d", fr.id, b.Index), "Bool", Or(rs...))
	// variables that differ
	keys := map[string]bool{}
	for _, c := range cs {
		for k := range c.st.m {
			keys[k] = true
		}
	}
	names := make([]string, 0, len(keys))
	for k := range keys {
		names = append(names, k)
	}
	sort.Strings(names)
	st := newState()
	for _, k := range names {
		var first *Term
		same := true
		var terms []*Term
		for _, c := range cs {
			t, ok := c.st.m[k]
			if !ok {
				// initial value; need the sort
				srt := vc.stateSort(k)
				if srt == "" {
					// find sort from a sibling that has it: derive from declared consts is impossible; use recorded
					srt = vc.varSort(k)
				}
				t = vc.svInit(k, srt)
			}
			terms = append(terms, t)
			if first == nil {
				first = t
			} else if t.String() != first.String() {
				same = false
			}
		}
		if same {
			st.m[k] = first
			continue
		}
		srt := vc.varSort(k)
		m := terms[len(terms)-1]
		for i := len(terms) - 2; i >= 0; i-- {
			m = Ite(cs[i].reach, terms[i], m)
		}
		st.m[k] = vc.define(k+"@"+fr.id+"b"+fmt.Sprint(b.Index), srt, m)
	}
	return reach, st
}

// varSort: sort of a state variable (recorded when first written/read)
func (vc *VC) varSort(name string) string {
	if s, ok := vc.sorts["sort:"+name]; ok {
		return s
	}
	if s := vc.stateSort(name); s != "" {
		return s
	}
	panic("unknown sort for state var " + name)
}

func (vc *VC) noteSort(name, sort string) { vc.sorts["sort:"+name] = sort }

func (fr *Frame) edge(from *ssa.BasicBlock, to *ssa.BasicBlock, reach *Term, st *State, li *loopInfo, in map[*ssa.BasicBlock][]contrib) {
	fr.edgeReach[[2]int{from.Index, to.Index}] = reach
	if fr.fc != nil {
		for _, l := range li.loops {
			if l.Blocks[from] && !l.Blocks[to] {
				if ls := fr.loopSpec(l); ls != nil {
					for i, ex := range ls.Leaves {
						// the edge leaves the loop's CFG cycle but may enter a block that still belongs to the loop
						// statement (the statements before a break); those are handled when that block is left
						if fr.inLoopStmt(l, to) {
							continue
						}
						fr.leaveAssert(l, ex, i, reach, st)
					}
					for i, ex := range ls.Exits {
						sc := fr.invScope(l, st)
						t, err := sc.compileBool(ex.Expr)
						if err != nil {
							fr.vc.Errors = append(fr.vc.Errors, fmt.Sprintf("loop %d exit assertion %d: %v", l.Ordinal, i+1, err))
							continue
						}
						fr.vc.oblige(fmt.Sprintf("exit%d", l.Ordinal), clauseLabel(ex, i), reach, t, l.Pos, ex.Src, ex.Props, "")
						fr.vc.assume(reach, t) // proved on this edge, so available after it (a cut)
					}
				}
			}
		}
	}
	if fr.fc != nil {
		// edges from a break block (outside the cycle, inside the loop statement) to the code after the loop
		for _, l := range li.loops {
			if !l.Blocks[from] && fr.inLoopStmt(l, from) && !l.Blocks[to] && !fr.inLoopStmt(l, to) {
				if ls := fr.loopSpec(l); ls != nil {
					for i, ex := range ls.Leaves {
						fr.leaveAssert(l, ex, i, reach, st)
					}
				}
			}
		}
	}
	if li.backEdge[[2]int{from.Index, to.Index}] {
		fr.loopBack(li.loops[to], reach, st)
		return
	}
	in[to] = append(in[to], contrib{reach, st})
}

func (fr *Frame) leaveAssert(l *Loop, ex *Clause, i int, reach *Term, st *State) {
	sc := fr.invScope(l, st)
	t, err := sc.compileBool(ex.Expr)
	if err != nil {
		fr.vc.Errors = append(fr.vc.Errors, fmt.Sprintf("loop %d leave assertion %d: %v", l.Ordinal, i+1, err))
		return
	}
	fr.vc.oblige(fmt.Sprintf("leave%d", l.Ordinal), clauseLabel(ex, i), reach, t, l.Pos, ex.Src, ex.Props, "")
	fr.vc.assume(reach, t)
}

// inLoopStmt: b lies outside the loop's cycle but all its positioned instructions are inside the source extent
// of the loop statement (the block of a `...; break`).
func (fr *Frame) inLoopStmt(l *Loop, b *ssa.BasicBlock) bool {
	if l.Blocks[b] || l.Node == nil {
		return false
	}
	n := 0
	for _, in := range b.Instrs {
		if p := in.Pos(); p.IsValid() {
			if p < l.Node.Pos() || p >= l.Node.End() {
				return false
			}
			n++
		}
	}
	return n > 0
}

// ---------------------------------------------------------------------------
// loops

func (fr *Frame) loopSpec(l *Loop) *LoopSpec {
	if fr.fc == nil {
		return nil
	}
	return fr.fc.Loops[l.Ordinal]
}

func (fr *Frame) invScope(l *Loop, st *State) *Scope {
	sc := fr.baseScope(st)
	sc.loop = l
	// inside loop invariants a parameter name denotes the current value of the (mutable) parameter;
	// old(p) denotes its entry value. In requires/ensures it denotes the entry value.
	for name := range fr.params {
		for _, b := range fr.fn.Blocks {
			for _, in := range b.Instrs {
				if a, ok := in.(*ssa.Alloc); ok && a.Comment == name {
					if _, declared := fr.env[a]; declared {
						delete(sc.vars, name)
					}
				}
			}
		}
	}
	return sc
}

func (fr *Frame) loopHead(l *Loop, reach *Term, st *State) (*Term, *State) {
	vc := fr.vc
	ls := fr.loopSpec(l)
	if ls == nil {
		if fr.depth > 0 {
			vc.Errors = append(vc.Errors, fmt.Sprintf("inlined function %s has a loop; it needs a contract", vc.e.shortName(fr.fn.String())))
		} else {
			vc.Errors = append(vc.Errors, fmt.Sprintf("loop %d of %s has no invariant", l.Ordinal, vc.short))
		}
		ls = &LoopSpec{Ordinal: l.Ordinal}
	}
	// established
	for i, inv := range ls.Invariants {
		sc := fr.invScope(l, st)
		t, err := sc.compileBool(inv.Expr)
		if err != nil {
			vc.Errors = append(vc.Errors, fmt.Sprintf("loop %d invariant %d: %v", l.Ordinal, i+1, err))
			continue
		}
		vc.oblige(fmt.Sprintf("inv%d.est", l.Ordinal), clauseLabel(inv, i), reach, t, l.Pos, inv.Src, inv.Props, "")
	}
	// havoc
	pre := st
	st = st.clone()
	mods := fr.modVarsOfBlocks(l.Blocks)
	fr.havoc(st, pre, reach, mods, fmt.Sprintf("L%d", l.Ordinal))
	hreach := vc.define(fmt.Sprintf("reach.%s.loop%d", fr.id, l.Ordinal), "Bool", reach)
	var rec *cutRec
	if ls.HasFocus && fr.depth == 0 {
		rec = &cutRec{loop: true, soft: true, facts: map[int]string{}, keep: map[string]bool{}}
		for _, l := range ls.Focus {
			rec.keep[l] = true
		}
		if vc.loopFocus == nil {
			vc.loopFocus = map[*Loop]*cutRec{}
		}
		vc.loopFocus[l] = rec
	}
	for i, inv := range ls.Invariants {
		sc := fr.invScope(l, st)
		t, err := sc.compileBool(inv.Expr)
		if err != nil {
			continue
		}
		n0 := len(vc.cmds)
		vc.assume(hreach, t)
		if rec != nil {
			for j := n0; j < len(vc.cmds); j++ {
				rec.facts[j] = clauseLabel(inv, i)
			}
		}
	}
	if fr.depth == 0 {
		// for the vacuity guard: the loop must be reachable under the assumptions, unless the contract itself declares it
		// unreachable by giving it the invariant `false`
		declaredDead := false
		for _, inv := range ls.Invariants {
			if strings.TrimSpace(inv.Src) == "false" || strings.HasSuffix(strings.TrimSpace(inv.Src), "] false") {
				declaredDead = true
			}
		}
		if !declaredDead {
			vc.loopGuards = append(vc.loopGuards, hreach)
			vc.loopGuardNames = append(vc.loopGuardNames, fmt.Sprintf("loop %d", l.Ordinal))
		}
	}
	return hreach, st
}

func (fr *Frame) loopBack(l *Loop, reach *Term, st *State) {
	vc := fr.vc
	ls := fr.loopSpec(l)
	if ls == nil {
		return
	}
	vc.focusLoop = l
	for i, inv := range ls.Invariants {
		sc := fr.invScope(l, st)
		t, err := sc.compileBool(inv.Expr)
		if err != nil {
			continue
		}
		vc.oblige(fmt.Sprintf("inv%d.pres", l.Ordinal), clauseLabel(inv, i), reach, t, l.Pos, inv.Src, inv.Props, "")
	}
	vc.focusLoop = nil
}

func clauseLabel(c *Clause, i int) string {
	if c.Label != "" {
		return c.Label
	}
	return fmt.Sprint(i + 1)
}

// ModSet describes what a code region may change.
type ModSet struct {
	Obj    map[string][]*ssa.Alloc // heap field prefixes ("H.T.f") written only through these locally allocated objects
	Elem   map[string][]*ssa.Alloc // memory roots ("M.T") written only through element stores into these local slice variables
	Vars   map[string]bool         // state var prefixes written on pre-existing objects (or locals/globals)
	Allocs map[string]bool         // roots ("H.T" / "M.T" / "MD.k") written only at fresh objects
	Alloc  bool                    // allocates at all
	Ghost  map[string]bool
}

func newModSet() *ModSet {
	return &ModSet{Vars: map[string]bool{}, Allocs: map[string]bool{}, Ghost: map[string]bool{}, Elem: map[string][]*ssa.Alloc{}, Obj: map[string][]*ssa.Alloc{}}
}

func (m *ModSet) union(o *ModSet) {
	for k := range o.Vars {
		m.Vars[k] = true
	}
	for k := range o.Allocs {
		m.Allocs[k] = true
	}
	for k := range o.Ghost {
		m.Ghost[k] = true
	}
	m.Alloc = m.Alloc || o.Alloc
}

func (fr *Frame) modVarsOfBlocks(blocks map[*ssa.BasicBlock]bool) *ModSet {
	ms := newModSet()
	storedCells := map[*ssa.Alloc]bool{}
	for b := range blocks {
		for _, in := range b.Instrs {
			if st, ok := in.(*ssa.Store); ok {
				if a, ok := st.Addr.(*ssa.Alloc); ok {
					storedCells[a] = true
				}
				// field store into a struct allocated inside this very region: only fresh objects change
				if root := allocRoot(st.Addr); root != nil && blocks[root.Block()] {
					if et := root.Type().(*types.Pointer).Elem(); isStruct(et) && root.Heap {
						for _, p := range fr.vc.e.addrPrefix(st.Addr, fr) {
							ms.Allocs[p] = true
						}
						ms.Alloc = true
						continue
					}
				}
				// field store into a struct allocated by this function before the region: only that object changes
				if root := allocRoot(st.Addr); root != nil && !blocks[root.Block()] && root.Heap {
					if et := root.Type().(*types.Pointer).Elem(); isStruct(et) {
						if _, ok := fr.env[root]; ok {
							for _, p := range fr.vc.e.addrPrefix(st.Addr, fr) {
								ms.Obj[p] = append(ms.Obj[p], root)
							}
							continue
						}
					}
				}
				// element store into a local slice variable: remember the variable instead of havocking the whole memory
				if ia, ok := st.Addr.(*ssa.IndexAddr); ok {
					if sl, ok := ia.X.Type().Underlying().(*types.Slice); ok {
						if u, ok := ia.X.(*ssa.UnOp); ok && u.Op == token.MUL {
							if cell, ok := u.X.(*ssa.Alloc); ok && !cell.Heap {
								root := "M." + typeKey(sl.Elem())
								ms.Elem[root] = append(ms.Elem[root], cell)
								continue
							}
						}
					}
				}
			}
			if mu, ok := in.(*ssa.MapUpdate); ok {
				if u, ok := mu.Map.(*ssa.UnOp); ok && u.Op == token.MUL {
					if cell, ok := u.X.(*ssa.Alloc); ok && !cell.Heap {
						mt := mu.Map.Type().Underlying().(*types.Map)
						for _, root := range []string{"MD." + typeKey(mt), "MV." + typeKey(mt)} {
							ms.Elem[root] = append(ms.Elem[root], cell)
						}
						continue
					}
				}
			}
			fr.vc.e.instrMods(in, ms, fr, map[*ssa.Function]bool{})
		}
	}
	// ghost variables assigned by `set` statements anchored at a call inside this region
	if fr.depth == 0 && fr.vc.fc != nil {
		for _, gs := range fr.vc.fc.Ghost {
			if gs.When == "entry" || gs.Assert != nil || gs.Cut {
				continue
			}
			for b := range blocks {
				for _, in := range b.Instrs {
					if c, ok := in.(ssa.CallInstruction); ok {
						if bi, ok := c.Common().Value.(*ssa.Builtin); ok && gs.Callee == bi.Name() {
							ms.Ghost[gs.Var] = true // `set g = e @ before N append`
						}
						if cal := c.Common().StaticCallee(); cal != nil {
							short := fr.vc.e.shortName(cal.String())
							if gs.Callee == shortFn(short) || gs.Callee == short || (strings.HasSuffix(gs.Callee, "*") && strings.HasPrefix(shortFn(short), strings.TrimSuffix(gs.Callee, "*"))) {
								ms.Ghost[gs.Var] = true
							}
						}
					}
				}
			}
		}
	}
	for root, cells := range ms.Elem {
		bad := ms.Vars[root]
		for _, c := range cells {
			if storedCells[c] {
				bad = true // the slice variable itself changes in the loop
			}
			if _, ok := fr.env[c]; !ok {
				bad = true
			}
		}
		if bad {
			ms.Vars[root] = true
			delete(ms.Elem, root)
		}
	}
	return ms
}

// havoc replaces every state variable touched by ms with a fresh constant;
// variables that are only written at fresh objects keep their values on
// objects allocated in the pre-state.
func (fr *Frame) havoc(st, pre *State, reach *Term, ms *ModSet, hint string) {
	vc := fr.vc
	preAlloc := vc.allocArr(pre)
	if ms.Alloc {
		na := vc.fresh("alloc."+hint, ArrSort("Int", "Bool"))
		st.m[allocVar] = na
		vc.cmds = append(vc.cmds, fmt.Sprintf("(assert (forall ((r Int)) (! (=> (select %s r) (select %s r)) :pattern ((select %s r)) :pattern ((select %s r)))))", preAlloc, na, preAlloc, na))
		vc.cmds = append(vc.cmds, fmt.Sprintf("(assert (not (select %s 0)))", na))
	}
	// all state vars known so far + those implied by prefixes
	names := vc.expandPrefixes(ms.Vars, fr)
	var closed [][2]interface{}
	for _, n := range names {
		srt := vc.varSort(n)
		nv := vc.fresh(n+"."+hint, srt)
		st.m[n] = nv
		closed = append(closed, [2]interface{}{n, nv})
	}
	defer func() {
		al := vc.allocArr(st)
		for _, c := range closed {
			name := c[0].(string)
			vc.closure(st, name, c[1].(*Term), al)
			// a local variable always holds nil or an allocated reference
			switch vc.localKinds[name] {
			case "ref", "sb", "map":
				vc.assume(reach, Or(Eq(c[1].(*Term), Zero), Sel(al, c[1].(*Term))))
			}
		}
	}()
	if len(ms.Allocs) > 0 {
		for _, n := range vc.expandPrefixes(ms.Allocs, fr) {
			if _, done := ms.Vars[n]; done {
				continue
			}
			if containsStr(names, n) {
				continue
			}
			srt := vc.varSort(n)
			old := vc.sv(pre, n, srt)
			nv := vc.fresh(n+"."+hint, srt)
			st.m[n] = nv
			closed = append(closed, [2]interface{}{n, nv})
			// unchanged on everything the region did not allocate (pre-existing objects, and references that stay unallocated such as nil)
			vc.cmds = append(vc.cmds, fmt.Sprintf("(assert (forall ((r Int)) (! (=> (or (select %s r) (not (select %s r))) (= (select %s r) (select %s r))) :pattern ((select %s r)) :pattern ((select %s r)))))", preAlloc, vc.allocArr(st), nv, old, nv, old))
		}
	}
	for pfx, roots := range ms.Obj {
		covered := false
		for v := range ms.Vars {
			if pfx == v || strings.HasPrefix(pfx, v+".") || strings.HasPrefix(pfx, v+"#") {
				covered = true
			}
		}
		if covered {
			continue
		}
		var objs []*Term
		for _, r := range roots {
			objs = append(objs, fr.env[r].T())
		}
		for _, n := range vc.e.expandPrefix(pfx, vc) {
			if containsStr(names, n) {
				continue
			}
			if _, done := st.m[n]; done && st.m[n] != pre.m[n] {
				continue
			}
			srt := vc.varSort(n)
			old := vc.sv(pre, n, srt)
			nv := vc.fresh(n+"."+hint, srt)
			st.m[n] = nv
			closed = append(closed, [2]interface{}{n, nv})
			var diff []*Term
			for _, o := range objs {
				diff = append(diff, Not(Eq(A("r"), o)))
			}
			vc.cmds = append(vc.cmds, fmt.Sprintf("(assert (forall ((r Int)) (! (=> %s (= (select %s r) (select %s r))) :pattern ((select %s r)) :pattern ((select %s r))))) ;E", And(diff...), nv, old, nv, old))
		}
	}
	for root, cells := range ms.Elem {
		if ms.Vars[root] {
			continue
		}
		var bases []*Term
		for _, c := range cells {
			if reg, ok := fr.env[c]; ok && reg.LV != nil {
				v := vc.load(pre, reg.LV)
				if len(v.Leaves) == 4 {
					bases = append(bases, v.sBase())
				} else if len(v.Leaves) == 1 {
					bases = append(bases, v.T()) // map reference
				}
			}
		}
		for _, n := range vc.e.expandPrefix(root, vc) {
			if containsStr(names, n) {
				continue
			}
			srt := vc.varSort(n)
			old := vc.sv(pre, n, srt)
			nv := vc.fresh(n+"."+hint, srt)
			st.m[n] = nv
			closed = append(closed, [2]interface{}{n, nv})
			var diff []*Term
			for _, b := range bases {
				diff = append(diff, Not(Eq(A("b"), b)))
			}
			vc.cmds = append(vc.cmds, fmt.Sprintf("(assert (forall ((b Int)) (! (=> %s (= (select %s b) (select %s b))) :pattern ((select %s b)) :pattern ((select %s b)))))", And(diff...), nv, old, nv, old))
		}
	}
	for g := range ms.Ghost {
		n := "ghost." + g
		if gd := vc.e.Ghosts[g]; gd != nil {
			vc.noteSort(n, gd.Sort)
			st.m[n] = vc.fresh(n+"."+hint, gd.Sort)
		}
	}
}

func containsStr(xs []string, s string) bool {
	for _, x := range xs {
		if x == s {
			return true
		}
	}
	return false
}

// expandPrefixes turns prefixes such as "H.genetics.Gene.Link" or "M.P.genetics.Gene"
// into concrete state variable names (one per layout leaf).
func (vc *VC) expandPrefixes(pfx map[string]bool, fr *Frame) []string {
	out := map[string]bool{}
	for p := range pfx {
		for _, n := range vc.e.expandPrefix(p, vc) {
			out[n] = true
		}
	}
	names := make([]string, 0, len(out))
	for n := range out {
		names = append(names, n)
	}
	sort.Strings(names)
	return names
}

// ---------------------------------------------------------------------------
// blocks and instructions

func (fr *Frame) block(b *ssa.BasicBlock, reach *Term, st *State, li *loopInfo, in map[*ssa.BasicBlock][]contrib) {
	vc := fr.vc
	for _, ins := range b.Instrs {
		switch ins := ins.(type) {
		case *ssa.If:
			c := fr.val(ins.Cond, st).T()
			cd := vc.define(fmt.Sprintf("c.%s.b%d", fr.id, b.Index), "Bool", c)
			r1 := vc.define(fmt.Sprintf("reach.%s.b%dt", fr.id, b.Index), "Bool", And(reach, cd))
			r2 := vc.define(fmt.Sprintf("reach.%s.b%df", fr.id, b.Index), "Bool", And(reach, Not(cd)))
			fr.edge(b, b.Succs[0], r1, st, li, in)
			fr.edge(b, b.Succs[1], r2, st, li, in)
			return
		case *ssa.Jump:
			fr.edge(b, b.Succs[0], reach, st, li, in)
			return
		case *ssa.Return:
			var vals []Val
			for _, r := range ins.Results {
				vals = append(vals, fr.val(r, st))
			}
			fr.rets = append(fr.rets, retInfo{reach, st, vals, fr.vc.curBlock, ins.Pos()})
			return
		case *ssa.Panic:
			if fr.fc == nil || !fr.fc.MayPanic {
				vc.oblige("safe.panic", fr.lbl(""), reach, TFalse, fr.pos(ins.Pos()), "explicit panic must be unreachable", nil, "")
			}
			return
		default:
			reach = fr.instr(ins, reach, st)
		}
	}
}

func (fr *Frame) setReg(v ssa.Value, val Val) { fr.env[v] = val }

// val evaluates an ssa.Value to a symbolic value.
func (fr *Frame) val(v ssa.Value, st *State) Val {
	vc := fr.vc
	switch v := v.(type) {
	case *ssa.Const:
		return fr.constVal(v)
	case *ssa.Global:
		// address of a global
		et := v.Type().(*types.Pointer).Elem()
		return Val{Typ: v.Type(), LV: &LVal{Kind: LGlobal, Typ: et, Root: "G." + vc.e.shortName(v.String())}}
	case *ssa.Function:
		return scalar(v.Type(), NumI(int64(vc.e.funcID(v.String()))))
	case *ssa.Builtin:
		return scalar(v.Type(), Zero)
	case *ssa.Parameter, *ssa.FreeVar:
		if val, ok := fr.env[v]; ok {
			return val
		}
		panic("unbound parameter " + v.Name())
	}
	if val, ok := fr.env[v]; ok {
		return val
	}
	panic(fmt.Sprintf("%s: value %s (%T) not evaluated", fr.fn, v.Name(), v))
}

func (e *Engine) funcID(name string) int { return e.strID("func:" + name) }

func (fr *Frame) constVal(c *ssa.Const) Val {
	e := fr.vc.e
	t := c.Type()
	if c.Value == nil {
		return e.zeroVal(t)
	}
	switch u := t.Underlying().(type) {
	case *types.Basic:
		switch {
		case u.Info()&types.IsBoolean != 0:
			if constant.BoolVal(c.Value) {
				return scalar(t, TTrue)
			}
			return scalar(t, TFalse)
		case u.Info()&types.IsInteger != 0:
			if i, ok := constant.Int64Val(constant.ToInt(c.Value)); ok {
				return scalar(t, NumI(i))
			}
			if bi, ok := constant.Val(constant.ToInt(c.Value)).(interface{ String() string }); ok {
				s := bi.String()
				if strings.HasPrefix(s, "-") {
					return scalar(t, App("-", A(s[1:])))
				}
				return scalar(t, A(s))
			}
		case u.Info()&types.IsFloat != 0:
			return scalar(t, e.constFloat(c.Value))
		case u.Info()&types.IsString != 0:
			return scalar(t, NumI(int64(e.strID(constant.StringVal(c.Value)))))
		}
	}
	panic(fmt.Sprintf("unsupported constant %v of type %v", c, t))
}

// lval resolves an address-valued ssa.Value to a location.
func (fr *Frame) lval(v ssa.Value, st *State, reach *Term, pos token.Pos) *LVal {
	val := fr.val(v, st)
	if val.LV != nil {
		return val.LV
	}
	// a genuine pointer value
	pt, ok := v.Type().Underlying().(*types.Pointer)
	if !ok {
		panic(fmt.Sprintf("lval of non-pointer %v", v.Type()))
	}
	fr.nilCheck(val.T(), reach, pos, v.Name())
	return fr.vc.derefLV(val.T(), pt.Elem())
}

func (fr *Frame) nilCheck(p *Term, reach *Term, pos token.Pos, what string) {
	if fr.vc.fc != nil && fr.vc.fc.Mode == "nosafety" {
		return
	}
	fr.vc.oblige("safe.nil", fr.lbl(""), reach, Not(Eq(p, Zero)), fr.pos(pos), "nil dereference", nil, "")
}

// reify turns an address register into a pointer value where possible.
func (fr *Frame) reify(val Val) Val {
	if val.LV == nil {
		return val
	}
	lv := val.LV
	if lv.Kind == LField && lv.Path == "" {
		return scalar(val.Typ, lv.Obj)
	}
	fr.vc.unsupported("%s: interior pointer used as a value (%s%s)", fr.vc.e.shortName(fr.fn.String()), lv.Root, lv.Path)
	return scalar(val.Typ, fr.vc.fresh("interior", "Int"))
}

func (fr *Frame) instr(ins ssa.Instruction, reach *Term, st *State) *Term {
	vc := fr.vc
	e := vc.e
	switch ins := ins.(type) {
	case *ssa.DebugRef:
	case *ssa.Alloc:
		et := ins.Type().(*types.Pointer).Elem()
		if _, isStruct := et.Underlying().(*types.Struct); isStruct && !ins.Heap {
			// a struct-typed local whose address does not escape is a bundle of local cells, not a heap object
			lv := &LVal{Kind: LLocal, Typ: et, Root: "L." + fr.id + "." + ins.Name()}
			fr.noteLV(lv)
			vc.store(st, lv, e.zeroVal(et))
			fr.setReg(ins, Val{Typ: ins.Type(), LV: lv})
			break
		}
		switch ut := et.Underlying().(type) {
		case *types.Struct:
			r := vc.newRef(st, reach, ins.Name())
			lv := vc.derefLV(r, et)
			fr.noteLV(lv)
			vc.store(st, lv, e.zeroVal(et))
			fr.setReg(ins, scalar(ins.Type(), r))
		case *types.Array:
			r := vc.newRef(st, reach, ins.Name())
			// zero the backing memory
			fr.zeroMem(st, r, ut.Elem())
			vc.assume(reach, Eq(fr.arrLen(st, r), NumI(ut.Len())))
			fr.setReg(ins, scalar(ins.Type(), r))
		default:
			if ins.Heap {
				r := vc.newRef(st, reach, ins.Name())
				lv := vc.boxLV(r, et)
				fr.noteLV(lv)
				vc.store(st, lv, e.zeroVal(et))
				fr.setReg(ins, scalar(ins.Type(), r))
			} else {
				lv := &LVal{Kind: LLocal, Typ: et, Root: "L." + fr.id + "." + ins.Name()}
				fr.noteLV(lv)
				if ins.Comment != "" || true {
					vc.store(st, lv, e.zeroVal(et))
				}
				fr.setReg(ins, Val{Typ: ins.Type(), LV: lv})
			}
		}
	case *ssa.Store:
		lv := fr.lval(ins.Addr, st, reach, ins.Pos())
		fr.guardCheck(lv, st, reach, ins.Pos(), "write")
		v := fr.reify(fr.val(ins.Val, st))
		fr.noteLV(lv)
		vc.store(st, lv, v)
	case *ssa.UnOp:
		fr.unop(ins, reach, st)
	case *ssa.BinOp:
		fr.setReg(ins, fr.binop(ins.Op, fr.val(ins.X, st), fr.val(ins.Y, st), ins.Type(), reach, ins.Pos()))
	case *ssa.FieldAddr:
		x := fr.val(ins.X, st)
		pt := ins.X.Type().Underlying().(*types.Pointer)
		stT := pt.Elem()
		f := stT.Underlying().(*types.Struct).Field(ins.Field)
		if x.LV != nil {
			base := *x.LV
			base.Path += "." + f.Name()
			base.Typ = f.Type()
			fr.setReg(ins, Val{Typ: ins.Type(), LV: &base})
		} else {
			fr.nilCheck(x.T(), reach, ins.Pos(), "")
			lv := vc.fieldLV(x.T(), stT, "."+f.Name(), f.Type())
			fr.setReg(ins, Val{Typ: ins.Type(), LV: lv})
		}
	case *ssa.Field:
		x := fr.val(ins.X, st)
		stT := ins.X.Type().Underlying().(*types.Struct)
		off := 0
		for i := 0; i < ins.Field; i++ {
			off += len(e.layout(stT.Field(i).Type()))
		}
		n := len(e.layout(stT.Field(ins.Field).Type()))
		fr.setReg(ins, Val{Typ: ins.Type(), Leaves: x.Leaves[off : off+n]})
	case *ssa.IndexAddr:
		x := fr.val(ins.X, st)
		idx := fr.val(ins.Index, st).T()
		switch xt := ins.X.Type().Underlying().(type) {
		case *types.Slice:
			fr.boundsCheck(idx, x.sLen(), reach, ins.Pos())
			lv := vc.elemLV(x.sBase(), IAdd(x.sOff(), idx), xt.Elem())
			fr.setReg(ins, Val{Typ: ins.Type(), LV: lv})
		case *types.Pointer:
			at := xt.Elem().Underlying().(*types.Array)
			xp := fr.reify(x)
			fr.boundsCheck(idx, NumI(at.Len()), reach, ins.Pos())
			lv := vc.elemLV(xp.T(), idx, at.Elem())
			fr.setReg(ins, Val{Typ: ins.Type(), LV: lv})
		default:
			panic("IndexAddr on " + ins.X.Type().String())
		}
	case *ssa.Index:
		// array value or string indexing: opaque
		vc.unsupported("%s: Index on %s", vc.short, ins.X.Type())
		fr.setReg(ins, vc.freshVal(ins.Name(), ins.Type()))
	case *ssa.Slice:
		fr.sliceOp(ins, reach, st)
	case *ssa.MakeSlice:
		n := fr.val(ins.Len, st).T()
		c := fr.val(ins.Cap, st).T()
		vc.oblige("safe.makeslice", fr.lbl(""), reach, And(App("<=", Zero, n), App("<=", n, c)), fr.pos(ins.Pos()), "make: 0 <= len <= cap", nil, "")
		b := vc.newRef(st, reach, ins.Name())
		et := ins.Type().Underlying().(*types.Slice).Elem()
		fr.zeroMem(st, b, et)
		fr.setReg(ins, Val{Typ: ins.Type(), Leaves: []*Term{b, Zero, n, c}})
	case *ssa.MakeMap:
		m := vc.newRef(st, reach, ins.Name())
		mt := ins.Type().Underlying().(*types.Map)
		dn, ds := mapDomVar(mt)
		vc.noteSort(dn, ds)
		st.m[dn] = Sto(vc.sv(st, dn, ds), m, A("((as const (Array "+keySort(mt)+" Bool)) false)"))
		fr.setReg(ins, scalar(ins.Type(), m))
	case *ssa.MakeChan:
		fr.setReg(ins, scalar(ins.Type(), vc.newRef(st, reach, ins.Name())))
	case *ssa.MakeInterface:
		x := fr.reify(fr.val(ins.X, st))
		tag := NumI(int64(e.typeID(ins.X.Type())))
		var payload *Term
		ls := e.layout(ins.X.Type())
		if len(ls) == 1 && ls[0].Sort == "Int" {
			payload = x.T()
		} else if len(ls) == 1 && ls[0].Kind == "float" {
			payload = App("f2i", x.T())
		} else if len(ls) == 4 && ls[0].Kind == "sb" {
			payload = x.Leaves[0] // slices boxed by base (approximation: off/len dropped)
		} else {
			payload = vc.fresh("boxed", "Int")
		}
		fr.setReg(ins, Val{Typ: ins.Type(), Leaves: []*Term{tag, payload}})
	case *ssa.MakeClosure:
		f := ins.Fn.(*ssa.Function)
		id := vc.fresh("closure", "Int")
		v := scalar(ins.Type(), id)
		fr.setReg(ins, v)
		fr.closures()[id.String()] = &closureInfo{fn: f, bindings: ins.Bindings, frame: fr}
	case *ssa.ChangeType:
		x := fr.val(ins.X, st)
		fr.setReg(ins, Val{Typ: ins.Type(), Leaves: x.Leaves, LV: x.LV})
	case *ssa.ChangeInterface:
		x := fr.val(ins.X, st)
		fr.setReg(ins, Val{Typ: ins.Type(), Leaves: x.Leaves})
	case *ssa.Convert:
		fr.setReg(ins, fr.convert(fr.val(ins.X, st), ins.X.Type(), ins.Type()))
	case *ssa.TypeAssert:
		fr.typeAssert(ins, reach, st)
	case *ssa.Extract:
		tup := fr.val(ins.Tuple, st)
		tt := ins.Tuple.Type().(*types.Tuple)
		off := 0
		for i := 0; i < ins.Index; i++ {
			off += len(e.layout(tt.At(i).Type()))
		}
		n := len(e.layout(tt.At(ins.Index).Type()))
		fr.setReg(ins, Val{Typ: ins.Type(), Leaves: tup.Leaves[off : off+n]})
	case *ssa.Phi:
		// value merge: pick by which predecessor we came from; reconstruct from edge reach terms
		fr.phi(ins, st)
	case *ssa.Lookup:
		fr.lookup(ins, reach, st)
	case *ssa.MapUpdate:
		m := fr.val(ins.Map, st).T()
		mt := ins.Map.Type().Underlying().(*types.Map)
		k := fr.mapKey(fr.val(ins.Key, st))
		vc.oblige("safe.nilmap", fr.lbl(""), reach, Not(Eq(m, Zero)), fr.pos(ins.Pos()), "assignment to entry in nil map", nil, "")
		dn, ds := mapDomVar(mt)
		vc.noteSort(dn, ds)
		st.m[dn] = Sto2(vc.define(dn, ds, vc.sv(st, dn, ds)), m, k, TTrue)
		v := fr.reify(fr.val(ins.Value, st))
		for i, l := range e.layout(mt.Elem()) {
			vn, vs := mapValVar(mt, l)
			vc.noteSort(vn, vs)
			st.m[vn] = Sto2(vc.define(vn, vs, vc.sv(st, vn, vs)), m, k, v.Leaves[i])
		}
	case *ssa.Call:
		return fr.call(ins, ins.Common(), reach, st)
	case *ssa.Defer:
		if ins.Block().Index != 0 && false {
			vc.unsupported("%s: conditional defer", vc.short)
		}
		fr.defers = append(fr.defers, ins)
	case *ssa.RunDefers:
		for i := len(fr.defers) - 1; i >= 0; i-- {
			d := fr.defers[i]
			reach = fr.call(nil, d.Common(), reach, st)
		}
	case *ssa.Go:
		vc.unsupported("%s: go statement", vc.short)
	case *ssa.Send:
		vc.unsupported("%s: channel send", vc.short)
	case *ssa.Select:
		v := vc.freshVal(ins.Name(), ins.Type())
		fr.setReg(ins, v)
		if fr.depth == 0 && fr.fc != nil && fr.fc.SelectDone != "" && !ins.Blocking && len(ins.States) == 1 && ins.States[0].Dir == types.RecvOnly {
			// `select { case <-ctx.Done(): ...; default: }`: the receive case is ready iff the channel is closed, i.e. iff the
			// context is cancelled, which the contract tracks in a ghost variable (set by the callbacks' contracts)
			if gd, ok := vc.e.Ghosts[fr.fc.SelectDone]; ok {
				n := "ghost." + fr.fc.SelectDone
				vc.noteSort(n, gd.Sort)
				g := vc.sv(st, n, gd.Sort)
				idx := v.Leaves[0]
				vc.assume(reach, And(Or(Eq(idx, Zero), Eq(idx, NumI(-1))), App("=", Eq(idx, Zero), g)))
				break
			}
		}
		vc.unsupported("%s: select", vc.short)
	case *ssa.Range:
		vc.unsupported("%s: range over map/string", vc.short)
		fr.setReg(ins, scalar(ins.Type(), vc.fresh("rangeiter", "Int")))
	case *ssa.Next:
		vc.unsupported("%s: map/string iteration", vc.short)
		fr.setReg(ins, vc.freshVal(ins.Name(), ins.Type()))
	default:
		panic(fmt.Sprintf("unhandled instruction %T: %v", ins, ins))
	}
	return reach
}

type closureInfo struct {
	fn       *ssa.Function
	bindings []ssa.Value
	frame    *Frame
}

var closureTab = map[*VC]map[string]*closureInfo{}

func (fr *Frame) closures() map[string]*closureInfo {
	m := closureTab[fr.vc]
	if m == nil {
		m = map[string]*closureInfo{}
		closureTab[fr.vc] = m
	}
	return m
}

func (fr *Frame) noteLV(lv *LVal) {
	for _, l := range fr.vc.e.layout(lv.Typ) {
		n, s := fr.vc.leafVar(lv, l)
		fr.vc.noteSort(n, s)
		if lv.Kind == LLocal {
			fr.vc.localKinds[n] = l.Kind
		}
	}
}

func (fr *Frame) boundsCheck(idx, n *Term, reach *Term, pos token.Pos) {
	if fr.vc.fc != nil && fr.vc.fc.Mode == "nosafety" {
		return
	}
	fr.vc.oblige("safe.idx", fr.lbl(""), reach, And(App("<=", Zero, idx), App("<", idx, n)), fr.pos(pos), "index out of range", nil, "")
}

func (fr *Frame) zeroMem(st *State, base *Term, et types.Type) {
	vc := fr.vc
	for _, l := range vc.e.layout(et) {
		name := "M." + typeKey(et) + l.Path
		srt := ArrSort("Int", ArrSort("Int", l.Sort))
		vc.noteSort(name, srt)
		z := vc.e.zeroLeaf(l)
		st.m[name] = Sto(vc.sv(st, name, srt), base, A("((as const "+ArrSort("Int", l.Sort)+") "+z.String()+")"))
	}
}

func (fr *Frame) arrLen(st *State, base *Term) *Term {
	return Sel(fr.vc.sv(st, "arrlen", ArrSort("Int", "Int")), base)
}

func (fr *Frame) unop(ins *ssa.UnOp, reach *Term, st *State) {
	vc := fr.vc
	switch ins.Op {
	case token.MUL:
		lv := fr.lval(ins.X, st, reach, ins.Pos())
		fr.guardCheck(lv, st, reach, ins.Pos(), "read")
		fr.noteLV(lv)
		v := vc.load(st, lv)
		fr.assumeAllocated(v, st, reach)
		fr.setReg(ins, v)
	case token.NOT:
		fr.setReg(ins, scalar(ins.Type(), Not(fr.val(ins.X, st).T())))
	case token.SUB:
		x := fr.val(ins.X, st)
		if isFloat(ins.Type()) {
			fr.setReg(ins, scalar(ins.Type(), fr.fneg(x.T())))
		} else {
			fr.setReg(ins, scalar(ins.Type(), INeg(x.T())))
		}
	case token.ARROW:
		vc.unsupported("%s: channel receive", vc.short)
		fr.setReg(ins, vc.freshVal(ins.Name(), ins.Type()))
	default:
		vc.unsupported("%s: unary %s", vc.short, ins.Op)
		fr.setReg(ins, vc.freshVal(ins.Name(), ins.Type()))
	}
}

// assumeAllocated: every reference read from the heap is nil or allocated.
func (fr *Frame) assumeAllocated(v Val, st *State, reach *Term) {
	vc := fr.vc
	ls := vc.e.layout(v.Typ)
	al := vc.allocArr(st)
	for i, l := range ls {
		if l.Kind == "ref" || l.Kind == "sb" || l.Kind == "map" {
			t := v.Leaves[i]
			if t.Op == "" && !strings.Contains(t.Atom, "!") {
				continue
			}
			vc.assume(reach, Or(Eq(t, Zero), Sel(al, t)))
		}
	}
	// slice shape
	if _, ok := v.Typ.Underlying().(*types.Slice); ok && len(v.Leaves) == 4 {
		vc.assume(reach, fr.sliceShape(v))
	} else {
		// nested slices inside structs
		for i, l := range ls {
			if l.Kind == "sb" && i+3 < len(ls) {
				sv := Val{Leaves: v.Leaves[i : i+4]}
				vc.assume(reach, fr.sliceShape(sv))
			}
		}
	}
}

func (fr *Frame) sliceShape(v Val) *Term {
	return And(App("<=", Zero, v.sOff()), App("<=", Zero, v.sLen()), App("<=", v.sLen(), v.sCap()),
		Imp(Eq(v.sBase(), Zero), And(Eq(v.sLen(), Zero), Eq(v.sCap(), Zero))))
}

func (fr *Frame) phi(ins *ssa.Phi, st *State) {
	// In naive form phis arise from && / || ; the incoming edges are in block pred order.
	// We cannot recover the edge reach terms here, so use the edge-condition registers recorded by preds.
	vc := fr.vc
	b := ins.Block()
	var res *Term
	for i := len(ins.Edges) - 1; i >= 0; i-- {
		p := b.Preds[i]
		v := fr.val(ins.Edges[i], st)
		if len(v.Leaves) != 1 {
			vc.unsupported("%s: phi of composite value", vc.short)
			fr.setReg(ins, vc.freshVal(ins.Name(), ins.Type()))
			return
		}
		if res == nil {
			res = v.T()
			continue
		}
		er := fr.edgeReach[[2]int{p.Index, b.Index}]
		if er == nil {
			vc.unsupported("%s: phi edge without reach", vc.short)
			fr.setReg(ins, vc.freshVal(ins.Name(), ins.Type()))
			return
		}
		res = Ite(er, v.T(), res)
	}
	fr.setReg(ins, scalar(ins.Type(), res))
}

// guardCheck emits the lock-discipline obligation for an access to a field declared `guarded` / `atomic`.
func (fr *Frame) guardCheck(lv *LVal, st *State, reach *Term, pos token.Pos, what string) {
	vc := fr.vc
	if lv == nil || lv.Kind != LField || len(vc.e.Guards) == 0 || lv.Path == "" {
		return
	}
	if vc.fc != nil && vc.fc.Exclusive {
		return
	}
	field := lv.Path[1:]
	if k := strings.IndexAny(field, ".#"); k >= 0 {
		field = field[:k]
	}
	gd := vc.e.Guards[lv.Root+"."+field]
	if gd == nil {
		return
	}
	props := []string{"C16"}
	if gd.Atomic {
		vc.oblige("guard."+field, fr.lbl(what), reach, TFalse, fr.pos(pos), "field "+gd.Type+"."+field+" may only be accessed through sync/atomic ("+what+" here is a plain access)", props, "")
		return
	}
	// the mutex stored in field gd.By of the same object must be in this goroutine's lock set
	mname := lv.Root + "." + gd.By
	srt := ArrSort("Int", "Int")
	vc.noteSort(mname, srt)
	m := Sel(vc.sv(st, mname, srt), lv.Obj)
	gl := "ghost.gLocked"
	vc.noteSort(gl, ArrSort("Int", "Bool"))
	held := Sel(vc.sv(st, gl, ArrSort("Int", "Bool")), m)
	vc.oblige("guard."+field, fr.lbl(what), reach, held, fr.pos(pos), what+" of "+gd.Type+"."+field+" requires holding "+gd.Type+"."+gd.By, props, "")
}

// allocRoot follows a chain of field addresses down to the allocation it starts from (nil if there is none).
func allocRoot(v ssa.Value) *ssa.Alloc {
	for {
		switch a := v.(type) {
		case *ssa.Alloc:
			return a
		case *ssa.FieldAddr:
			v = a.X
		default:
			return nil
		}
	}
}

// acyclicReach: reach[x][y] = block y can be reached from block x without taking a loop back edge.
func acyclicReach(fn *ssa.Function, li *loopInfo) map[int]map[int]bool {
	out := map[int]map[int]bool{}
	var dfs func(root int, b *ssa.BasicBlock)
	dfs = func(root int, b *ssa.BasicBlock) {
		if out[root][b.Index] {
			return
		}
		out[root][b.Index] = true
		for _, s := range b.Succs {
			if li.backEdge[[2]int{b.Index, s.Index}] {
				continue
			}
			dfs(root, s)
		}
	}
	for _, b := range fn.Blocks {
		out[b.Index] = map[int]bool{}
		dfs(b.Index, b)
	}
	return out
}
