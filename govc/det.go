package main

// C17: `deterministic(rand)` effect check. A sufficient syntactic condition over the SSA of the sequential
// evolution closure: the only sources of nondeterminism a Go program has (map iteration order, goroutines and
// multi-way select, wall-clock and environment reads, pointer values observed as integers or text, other random
// sources) do not occur in any function reachable from population construction and the sequential epoch turnover;
// math/rand's global source, drawn in program order, is then the only input besides the arguments.

import (
	"fmt"
	"go/types"
	"sort"
	"strings"

	"golang.org/x/tools/go/ssa"
)

var detRoots = []string{
	modPath + "/neat/genetics.NewPopulation",
	"(*" + modPath + "/neat/genetics.SequentialPopulationEpochExecutor).NextEpoch",
	"(*" + modPath + "/neat/genetics.Genome).Genesis",
}

// packages whose functions read state outside the program's inputs
var nondetPkgs = map[string]string{
	"time":         "wall clock",
	"os":           "environment / file system",
	"crypto/rand":  "entropy source",
	"runtime":      "scheduler / memory state",
	"math/rand/v2": "separately seeded random source",
	"unsafe":       "pointer arithmetic",
	"reflect":      "reflection (map iteration order, pointer values)",
}

func (e *Engine) detClosure() (roots []*ssa.Function, closure map[*ssa.Function]bool, ext map[string]bool) {
	closure = map[*ssa.Function]bool{}
	ext = map[string]bool{}
	var work []*ssa.Function
	for _, r := range detRoots {
		if f := e.Funcs[r]; f != nil {
			roots = append(roots, f)
			work = append(work, f)
		}
	}
	inRepo := func(f *ssa.Function) bool {
		if f == nil || f.Pkg == nil {
			return false
		}
		for _, p := range e.RepoPkgs {
			if f.Pkg.Pkg.Path() == p {
				return true
			}
		}
		return false
	}
	for len(work) > 0 {
		f := work[len(work)-1]
		work = work[:len(work)-1]
		if f == nil || closure[f] {
			continue
		}
		if !inRepo(f) {
			if f.Pkg != nil {
				ext[f.Pkg.Pkg.Path()+"."+f.Name()] = true
			}
			continue
		}
		closure[f] = true
		for _, an := range f.AnonFuncs {
			work = append(work, an)
		}
		for _, b := range f.Blocks {
			for _, in := range b.Instrs {
				var c *ssa.CallCommon
				switch in := in.(type) {
				case *ssa.Call:
					c = in.Common()
				case *ssa.Defer:
					c = in.Common()
				case *ssa.Go:
					c = in.Common()
				}
				if c == nil {
					continue
				}
				if sc := c.StaticCallee(); sc != nil {
					work = append(work, sc)
					continue
				}
				if c.IsInvoke() {
					iface, _ := c.Value.Type().Underlying().(*types.Interface)
					for _, cand := range e.Funcs {
						if cand.Name() != c.Method.Name() || cand.Signature.Recv() == nil {
							continue
						}
						if iface == nil || types.Implements(cand.Signature.Recv().Type(), iface) {
							work = append(work, cand)
						}
					}
				} else if u, ok := c.Value.(*ssa.UnOp); ok {
					// call through a package-level function variable (loggers, activation functions)
					if g, ok := u.X.(*ssa.Global); ok {
						if vf := e.VarFuncs["var "+g.String()]; vf != nil {
							work = append(work, vf)
						}
					}
				}
			}
		}
	}
	return
}

func (e *Engine) detObligations() *FuncResult {
	res := &FuncResult{Key: "C17.closure", Short: "C17.sequential-closure"}
	roots, closure, ext := e.detClosure()
	add := func(label, src string, ok bool, line int) {
		o := &Obl{Name: res.Short + "#det." + label, Kind: "det", Label: label, Func: res.Short, Src: src, Props: []string{"C17"}, Solver: "static (SSA scan)", Line: line}
		if ok {
			o.Status = "unsat"
		} else {
			o.Status = "sat"
			o.Model = src
		}
		res.Obls = append(res.Obls, o)
	}
	if len(roots) < 2 {
		add("roots", "population construction / sequential epoch entry points not found", false, 0)
		return res
	}
	var fs []*ssa.Function
	for f := range closure {
		fs = append(fs, f)
	}
	sort.Slice(fs, func(i, j int) bool { return fs[i].String() < fs[j].String() })
	nFuncs := 0
	for _, f := range fs {
		// loggers and String() methods only format text for humans: their output never flows back into the evolution state
		var bad []string
		for _, b := range f.Blocks {
			for _, in := range b.Instrs {
				pos := e.Fset.Position(in.Pos())
				at := fmt.Sprintf(" (line %d)", pos.Line)
				switch in := in.(type) {
				case *ssa.Range:
					if _, isMap := in.X.Type().Underlying().(*types.Map); isMap {
						bad = append(bad, "iteration over a map (order is randomised by the runtime)"+at)
					}
				case *ssa.Go:
					bad = append(bad, "go statement (scheduling order)"+at)
				case *ssa.Select:
					if len(in.States) > 1 || (len(in.States) == 1 && in.Blocking) {
						bad = append(bad, "select over several ready channels / blocking select"+at)
					}
				case *ssa.Convert:
					if _, isPtr := in.X.Type().Underlying().(*types.Pointer); isPtr {
						bad = append(bad, "pointer converted to a number (memory address observed)"+at)
					}
					if bt, ok := in.X.Type().Underlying().(*types.Basic); ok && bt.Kind() == types.UnsafePointer {
						bad = append(bad, "unsafe.Pointer conversion"+at)
					}
				case *ssa.BinOp:
					// ordering comparisons of pointers do not type-check in Go; equality is deterministic
				case *ssa.Call:
					if sc := in.Common().StaticCallee(); sc != nil && sc.Pkg != nil {
						pp := sc.Pkg.Pkg.Path()
						if why, isBad := nondetPkgs[pp]; isBad {
							bad = append(bad, fmt.Sprintf("call to %s.%s (%s)%s", pp, sc.Name(), why, at))
						}
						if pp == "math/rand" && (sc.Name() == "Seed" || sc.Name() == "New" || sc.Name() == "NewSource") {
							bad = append(bad, "re-seeds or replaces the random source: math/rand."+sc.Name()+at)
						}
						if pp == "sort" && (sc.Name() == "Slice" || sc.Name() == "Sort" || sc.Name() == "Stable" || sc.Name() == "SliceStable") {
							// deterministic for a given input order and comparison function
						}
					}
				}
			}
		}
		nFuncs++
		if len(bad) > 0 {
			add(shortFn(e.shortName(f.String())), e.shortName(f.String())+": "+strings.Join(bad, "; "), false, e.Fset.Position(f.Pos()).Line)
		}
	}
	var exts []string
	for k := range ext {
		exts = append(exts, k)
	}
	sort.Strings(exts)
	add("closure", fmt.Sprintf("%d repository functions reachable from NewPopulation / SequentialPopulationEpochExecutor.NextEpoch / Genesis scanned: no map iteration, goroutine, multi-way select, clock / environment read, address observation or re-seeding; external callees assumed deterministic: %s", nFuncs, strings.Join(exts, ", ")), true, 0)
	// one obligation per scanned function so that the evidence counts what was covered
	for _, f := range fs {
		add("fn."+smtName(e.shortName(f.String())), e.shortName(f.String())+": deterministic fragment", !hasFailed(res, shortFn(e.shortName(f.String()))), e.Fset.Position(f.Pos()).Line)
	}
	return res
}

func hasFailed(res *FuncResult, label string) bool {
	for _, o := range res.Obls {
		if o.Label == label && o.Status != "unsat" {
			return true
		}
	}
	return false
}
