package main

import (
	"bufio"
	"encoding/json"
	"flag"
	"fmt"
	"os"
	"os/exec"
	"path/filepath"
	"sort"
	"strconv"
	"strings"
	"sync"
	"time"
)

type knownFinding struct {
	Prop string
	Obl  string // obligation name (exact, without ~n suffix match allowed via prefix "name")
	Desc string
}

func loadKnown(path string) (known []knownFinding, fixed []string) {
	f, err := os.Open(path)
	if err != nil {
		return
	}
	defer f.Close()
	sc := bufio.NewScanner(f)
	for sc.Scan() {
		ln := strings.TrimSpace(sc.Text())
		if ln == "" || strings.HasPrefix(ln, "#") {
			continue
		}
		if strings.HasPrefix(ln, "fixed:") {
			fixed = append(fixed, ln)
			continue
		}
		if strings.HasPrefix(ln, "finding:") {
			kf := knownFinding{}
			rest := strings.TrimSpace(ln[len("finding:"):])
			for _, f := range strings.Fields(rest) {
				if strings.HasPrefix(f, "property=") {
					kf.Prop = f[len("property="):]
				} else if strings.HasPrefix(f, "obligation=") {
					kf.Obl = f[len("obligation="):]
				}
			}
			if k := strings.Index(rest, " -- "); k >= 0 {
				kf.Desc = strings.TrimSpace(rest[k+4:])
			}
			known = append(known, kf)
		}
	}
	return
}

type oblReport struct {
	Name   string  `json:"name"`
	Status string  `json:"status"`
	Solver string  `json:"solver"`
	TimeS  float64 `json:"time_s"`
	Line   int     `json:"line,omitempty"`
}

type funcReport struct {
	Function    string   `json:"function"`
	File        string   `json:"file"`
	Blob        string   `json:"git_blob,omitempty"`
	Obligations int      `json:"obligations"`
	Discharged  int      `json:"discharged"`
	FloatMode   string   `json:"float_mode"`
	Inlined     []string `json:"inlined_callees,omitempty"`
	Trusted     []string `json:"trusted_callee_contracts,omitempty"`
	Abstracted  []string `json:"abstracted,omitempty"`
	Undecided   []string `json:"undecided,omitempty"`
	Vacuity     string   `json:"vacuity"`
}

func cmdCheck(args []string) {
	fs := flag.NewFlagSet("check", flag.ExitOnError)
	repo := fs.String("repo", "/repo", "repository")
	ext := fs.String("ext", "/verif/contracts", "external contracts dir")
	prop := fs.String("prop", "", "property id")
	tier := fs.String("tier", "", "quick|thorough")
	outRoot := fs.String("out", "/verif/out", "output root")
	evid := fs.String("evidence", "", "evidence file")
	knownPath := fs.String("known", "/verif/known_findings.txt", "known findings")
	oracleDir := fs.String("oracle", "/verif/oracle", "oracle harness dir")
	fs.Parse(args)
	if *prop == "" {
		usage()
	}
	if *tier == "" {
		*tier = os.Getenv("VERIF_TIER")
	}
	if *tier != "thorough" {
		*tier = "quick"
	}
	seed := int64(1)
	if s := os.Getenv("VERIF_SEED"); s != "" {
		if n, err := strconv.ParseInt(s, 10, 64); err == nil {
			seed = n
		}
	}
	if *evid == "" {
		*evid = "/verif/evidence/" + *prop + ".json"
	}
	t0 := time.Now()
	loadHints("/verif/hints")
	e := load(*repo, *ext)
	known, fixed := loadKnown(*knownPath)

	var keys []string
	for k, fc := range e.Contracts {
		if fc.Trusted {
			continue
		}
		for _, p := range fc.Props {
			if p == *prop {
				keys = append(keys, k)
			}
		}
	}
	sort.Strings(keys)
	vcDir := filepath.Join(*outRoot, "vc", *prop)
	os.RemoveAll(vcDir)
	os.MkdirAll(vcDir, 0o755)
	replayDir := filepath.Join(*outRoot, "replay")
	os.MkdirAll(replayDir, 0o755)

	quickSec, slowSec := 12, 36
	cross := false
	if *tier == "thorough" {
		quickSec, slowSec, cross = 30, 60, true
	}

	type item = struct {
		vc *VC
		o  *Obl
	}
	var results []*FuncResult
	var items []item
	owner := map[*Obl]*FuncResult{}
	for _, k := range keys {
		res := e.Verify(k)
		results = append(results, res)
		for _, o := range res.Obls {
			owner[o] = res
			if !oblInProp(o, *prop) {
				o.Status = "skipped"
				continue
			}
			items = append(items, item{res.VC, o})
		}
	}
	SolveAll(items, vcDir, 16, quickSec, slowSec, cross)
	if *prop == "C17" {
		cr := e.detObligations()
		results = append(results, cr)
		for _, o := range cr.Obls {
			owner[o] = cr
		}
		keys = append(keys, cr.Key)
	}
	if *prop == "C16" {
		cr := e.raceClosureObligations()
		results = append(results, cr)
		for _, o := range cr.Obls {
			owner[o] = cr
		}
	}

	// vacuity: the assumptions of every function must be satisfiable together with some exit
	vac := map[string]string{}
	brokenCheck := []string{}
	{
		var mu sync.Mutex
		var wg sync.WaitGroup
		sem := make(chan struct{}, 16)
		for _, res := range results {
			if res.VC == nil {
				continue
			}
			wg.Add(1)
			go func(res *FuncResult) {
				defer wg.Done()
				sem <- struct{}{}
				v := res.VC.vacuity(vcDir)
				<-sem
				mu.Lock()
				vac[res.Short] = v
				if strings.HasPrefix(v, "VACUOUS") {
					brokenCheck = append(brokenCheck, res.Short+": "+v)
				}
				mu.Unlock()
			}(res)
		}
		wg.Wait()
	}

	total, discharged := 0, 0
	var failed []*Obl
	var undecided []string
	var freps []funcReport
	var samples []interface{}
	solverTime := map[string]float64{}
	trustedSet := map[string]bool{}
	for _, res := range results {
		fr := funcReport{Function: res.Short, Vacuity: vac[res.Short], FloatMode: "real"}
		if fc := e.Contracts[res.Key]; fc != nil && fc.Mode == "fp" {
			fr.FloatMode = "fp (IEEE-754 binary64, RNE)"
		}
		if fn := e.lookupFunc(res.Key); fn != nil {
			fr.File = strings.TrimPrefix(e.Fset.Position(fn.Pos()).Filename, *repo+"/")
			fr.Blob = gitBlob(*repo, fr.File)
		}
		for _, o := range res.Obls {
			if o.Status == "skipped" {
				continue
			}
			total++
			fr.Obligations++
			solverTime[o.Solver] += o.TimeS
			if o.Status == "unsat" {
				discharged++
				fr.Discharged++
				if len(samples) < 6 && o.Solver != "trivial" {
					samples = append(samples, map[string]interface{}{"obligation": o.Name, "smt": o.File, "solver": o.Solver, "time_s": round3(o.TimeS), "clause": o.Src})
				}
			} else {
				failed = append(failed, o)
			}
		}
		if res.VC != nil {
			for k := range res.VC.inlined {
				fr.Inlined = append(fr.Inlined, k)
			}
			for k := range res.VC.usedTrusted {
				fr.Trusted = append(fr.Trusted, k)
				trustedSet[k] = true
			}
			sort.Strings(fr.Inlined)
			sort.Strings(fr.Trusted)
		}
		fr.Abstracted = res.Unsupported
		fr.Undecided = res.Errors
		for _, er := range res.Errors {
			undecided = append(undecided, res.Short+": "+er)
		}
		freps = append(freps, fr)
	}

	// classify failures
	violations := 0
	var knownHit []string
	var lines []string
	for _, o := range failed {
		base := o.Name
		if k := strings.Index(base, "~"); k >= 0 {
			base = base[:k]
		}
		matched := false
		for _, kf := range known {
			if kf.Prop == *prop && (kf.Obl == o.Name || kf.Obl == base) {
				matched = true
				knownHit = append(knownHit, fmt.Sprintf("KNOWN-FINDING: property=%s obligation=%s %s", *prop, o.Name, kf.Desc))
			}
		}
		if matched {
			continue
		}
		rp := filepath.Join(replayDir, fmt.Sprintf("%s_%s.txt", *prop, smtName(o.Name)))
		found := writeReplay(e, rp, *prop, o, owner[o], vcDir, *repo, *oracleDir, seed, *tier)
		if !found {
			// the function uses a construct the encoding over-approximates and that its contract was not written
			// with: the failed proof may be an artefact of the abstraction, not evidence about the property
			if extra := unexpectedAbstractions(e, owner[o]); len(extra) > 0 {
				undecided = append(undecided, fmt.Sprintf("%s: obligation %s failed, but the function now uses %s, which the encoding abstracts; no failing input was found", owner[o].Short, o.Name, strings.Join(extra, ", ")))
				continue
			}
		}
		violations++
		ln := fmt.Sprintf("VIOLATION property=%s replay=%s", *prop, rp)
		if !found {
			ln += " no-failing-input-found"
		}
		lines = append(lines, ln)
	}
	// contracts that no longer apply: fall back to the bounded oracle on the real code
	oracleNote := ""
	if len(undecided) > 0 && violations == 0 {
		for _, u := range undecided {
			fmt.Println("UNDECIDED", u)
		}
		ok, out := runOracle(*repo, *oracleDir, *prop, seed, *tier)
		oracleNote = "contracts did not apply to the current source for: " + strings.Join(undecided, "; ") + "; bounded oracle on the real code: "
		if !ok {
			rp := filepath.Join(replayDir, fmt.Sprintf("%s_oracle.txt", *prop))
			os.WriteFile(rp, []byte("bounded oracle (contracts undecided)\n"+out), 0o644)
			lines = append(lines, fmt.Sprintf("VIOLATION property=%s replay=%s", *prop, rp))
			violations++
			oracleNote += "FAILED"
		} else {
			oracleNote += "passed"
		}
	}
	// thorough: bounded stand-in
	boundedInfo := map[string]interface{}{}
	if *tier == "thorough" && violations == 0 {
		ok, out := runOracle(*repo, *oracleDir, *prop, seed, *tier)
		boundedInfo["ran"] = true
		boundedInfo["label"] = "bounded (not counted as proved)"
		boundedInfo["output_tail"] = tail(out, 12)
		if !ok && !strings.Contains(out, "NO-ORACLE") {
			rp := filepath.Join(replayDir, fmt.Sprintf("%s_bounded.txt", *prop))
			os.WriteFile(rp, []byte("bounded stand-in found a failing input on the real code\n"+out), 0o644)
			if kf := oracleKnown(out, known, *prop); kf != "" {
				knownHit = append(knownHit, kf)
			} else {
				lines = append(lines, fmt.Sprintf("VIOLATION property=%s replay=%s", *prop, rp))
				violations++
			}
		}
	}

	for _, k := range knownHit {
		fmt.Println(k)
	}
	for _, l := range lines {
		fmt.Println(l)
	}
	wall := time.Since(t0).Seconds()

	// evidence
	var trusted []string
	for k := range trustedSet {
		trusted = append(trusted, "assumed contract: "+k)
	}
	sort.Strings(trusted)
	trusted = append(trusted,
		"go/packages + go/ssa (x/tools v0.29.0) lowering and govc's SSA->SMT encoding",
		"integers are mathematical (no overflow modelled)",
		"float64 is Real unless a function is marked 'mode fp'",
		"partial correctness: termination is not proved",
		"solvers: z3 5.1.0, z3 4.8.12, cvc5 1.0.x")
	for _, ax := range e.Axioms {
		trusted = append(trusted, "axiom "+ax.Name+": "+ax.Src)
	}
	level := "proof"
	if *prop == "C17" {
		// a sufficient syntactic condition checked over SSA, not an SMT proof
		level = "other"
	}
	if len(keys) == 0 {
		brokenCheck = append(brokenCheck, "no function carries property "+*prop)
	}
	if total == 0 {
		brokenCheck = append(brokenCheck, "zero obligations generated")
	}
	var failedNames []oblReport
	for _, o := range failed {
		failedNames = append(failedNames, oblReport{o.Name, o.Status, o.Solver, round3(o.TimeS), o.Line})
	}
	if len(samples) == 0 {
		for _, res := range results {
			for _, o := range res.Obls {
				if len(samples) < 3 {
					samples = append(samples, map[string]interface{}{"obligation": o.Name, "status": o.Status})
				}
			}
		}
	}
	cov := map[string]interface{}{
		"obligations":              total,
		"discharged":               discharged,
		"checker_cmd":              "govc check -prop " + *prop + " -tier " + *tier + "  (z3-new -T:" + fmt.Sprint(quickSec) + " | z3 4.8.12 / cvc5 -T:" + fmt.Sprint(slowSec) + ")",
		"trusted_base":             trusted,
		"functions":                freps,
		"functions_under_contract": len(keys),
		"solver_time_s":            roundMap(solverTime),
		"samples":                  samples,
		"failed_obligations":       failedNames,
		"known_findings_hit":       knownHit,
		"fixed_findings":           fixed,
		"undecided":                undecided,
		"oracle_fallback":          oracleNote,
		"bounded":                  boundedInfo,
		"broken_check":             brokenCheck,
		"vc_dir":                   vcDir,
	}
	if level == "other" {
		cov["explanation"] = "effect contract `deterministic(rand)`: every function reachable from NewPopulation, SequentialPopulationEpochExecutor.NextEpoch and Genome.Genesis is scanned in SSA form for the constructs through which a Go program can depend on anything but its inputs and the seeded math/rand stream (map iteration, go, multi-way/blocking select, time/os/runtime/reflect/unsafe/crypto-rand calls, pointer-to-integer conversion, re-seeding). One obligation per function; all must be clean. A sufficient condition, decided syntactically; the run-twice harness in the thorough tier only confirms refutations."
	}
	ev := map[string]interface{}{
		"property_id": *prop,
		"tier":        *tier,
		"seed":        seed,
		"level":       level,
		"coverage":    cov,
		"assumptions": trusted,
		"wall_s":      round3(wall),
		"violations":  violations,
	}
	os.MkdirAll(filepath.Dir(*evid), 0o755)
	data, _ := json.MarshalIndent(ev, "", " ")
	os.WriteFile(*evid, data, 0o644)

	fmt.Printf("property %s: %d functions, %d/%d obligations discharged, %d violations, %d known findings, %.1fs\n", *prop, len(keys), discharged, total, violations, len(knownHit), wall)
	if len(brokenCheck) > 0 {
		for _, b := range brokenCheck {
			fmt.Println("BROKEN-CHECK:", b)
		}
		os.Exit(2)
	}
	if violations > 0 {
		os.Exit(1)
	}
}

func oblInProp(o *Obl, prop string) bool {
	if len(o.Props) == 0 {
		return true
	}
	for _, p := range o.Props {
		if p == prop {
			return true
		}
	}
	return false
}

func round3(f float64) float64 { return float64(int(f*1000+0.5)) / 1000 }

func roundMap(m map[string]float64) map[string]float64 {
	out := map[string]float64{}
	for k, v := range m {
		if k == "" {
			continue
		}
		out[k] = round3(v)
	}
	return out
}

func tail(s string, n int) string {
	ls := strings.Split(strings.TrimRight(s, "\n"), "\n")
	if len(ls) > n {
		ls = ls[len(ls)-n:]
	}
	return strings.Join(ls, "\n")
}

func gitBlob(repo, file string) string {
	out, err := exec.Command("git", "-C", repo, "hash-object", file).Output()
	if err != nil {
		return ""
	}
	return strings.TrimSpace(string(out))
}

// vacuity: requires + path to some exit must not be unsat.
func (vc *VC) vacuity(dir string) string {
	if len(vc.exits) == 0 {
		return "no normal exit"
	}
	script := vc.satScript(len(vc.cmds), Or(vc.exits...))
	file := filepath.Join(dir, "vacuity_"+smtName(vc.short)+".smt2")
	os.WriteFile(file, []byte(script), 0o644)
	r := runSolver(solvers[0], file, 4)
	switch r.status {
	case "unsat":
		// double check with a second solver before calling the check broken
		r2 := runSolver(solvers[2], file, 6)
		if r2.status == "sat" {
			return "sat (cvc5; z3 said unsat)"
		}
		return "VACUOUS: precondition and assumptions exclude every exit (" + r.solver + ")"
	case "sat":
		if v := vc.loopsReachable(dir); v != "" {
			return v
		}
		return "sat: some exit is reachable under the precondition"
	}
	if v := vc.loopsReachable(dir); v != "" {
		return v
	}
	return "inconclusive (" + r.status + "): not shown contradictory within 4s"
}

// loopsReachable: every loop of the function must be reachable under the assumptions (a contradictory assumption half-way --
// e.g. a trusted callee contract that forces an early return -- leaves an exit reachable but makes everything behind it
// vacuous). Returns a VACUOUS verdict or "".
func (vc *VC) loopsReachable(dir string) string {
	for i, g := range vc.loopGuards {
		f2 := filepath.Join(dir, fmt.Sprintf("vacuity_%s_loop%d.smt2", smtName(vc.short), i))
		// the quantifier-free part of the context is enough to find a contradiction of this kind, and decides fast
		// (unsat of a subset of the assumptions implies unsat of all of them)
		os.WriteFile(f2, []byte(vc.satScriptQF(len(vc.cmds), g)), 0o644)
		rl := runSolver(solvers[0], f2, 3)
		if rl.status == "unsat" {
			if r2 := runSolver(solvers[2], f2, 5); r2.status != "sat" {
				return "VACUOUS: " + vc.loopGuardNames[i] + " is unreachable under the precondition and the assumed contracts (" + rl.solver + "); if that is intended give the loop the invariant `false`"
			}
		}
	}
	return ""
}

// writeReplay records a failed obligation and tries to obtain a concrete failing
// input on the real code through the property's oracle harness.
func writeReplay(e *Engine, path, prop string, o *Obl, res *FuncResult, vcDir, repo, oracleDir string, seed int64, tier string) bool {
	var sb strings.Builder
	fmt.Fprintf(&sb, "property: %s\nfailed obligation: %s\nfunction: %s (line %d)\nclause: %s\nsolver: %s status=%s time=%.2fs\nsmt file: %s\n", prop, o.Name, o.Func, o.Line, o.Src, o.Solver, o.Status, o.TimeS, o.File)
	sb.WriteString("--- solver output ---\n")
	sb.WriteString(tail(o.Model, 200))
	sb.WriteString("\n")
	found := false
	if res != nil && res.VC != nil {
		ro := e.replayModel(res, o, repo, oracleDir, vcDir)
		if ro.Tried {
			sb.WriteString("--- counterexample from the solver model, replayed on the real code ---\n")
			sb.WriteString(ro.Inputs + "\n")
			if ro.Failed {
				found = true
				sb.WriteString("RESULT: the real code FAILS on this input\n")
			} else {
				sb.WriteString("RESULT: the real code does not fail on this input (" + ro.Comment + ")\n")
			}
			sb.WriteString(tail(ro.Output, 40) + "\n--- generated test ---\n" + ro.Source + "\n")
		} else {
			sb.WriteString("--- model replay not attempted: " + ro.Comment + " ---\n")
		}
	}
	if found {
		os.WriteFile(path, []byte(sb.String()), 0o644)
		return true
	}
	ok, out := runOracle(repo, oracleDir, prop, seed, tier)
	if strings.Contains(out, "NO-ORACLE") {
		sb.WriteString("--- no executable oracle for this property ---\n")
	} else if !ok {
		found = true
		sb.WriteString("--- replay on the real code: FAILING INPUT FOUND ---\n")
		sb.WriteString(tail(out, 120))
		sb.WriteString("\n")
	} else {
		sb.WriteString("--- replay on the real code: directed bounded search found no failing input ---\n")
		sb.WriteString(tail(out, 20))
		sb.WriteString("\n")
	}
	os.WriteFile(path, []byte(sb.String()), 0o644)
	return found
}

func oracleKnown(out string, known []knownFinding, prop string) string {
	for _, kf := range known {
		if kf.Prop == prop && strings.HasPrefix(kf.Obl, "oracle:") && strings.Contains(out, strings.TrimPrefix(kf.Obl, "oracle:")) {
			return fmt.Sprintf("KNOWN-FINDING: property=%s %s %s", prop, kf.Obl, kf.Desc)
		}
	}
	return ""
}

// runOracle runs the executable oracle tests of a property against the real
// code through `go test -overlay` (nothing is written into the repository).
func runOracle(repo, oracleDir, prop string, seed int64, tier string) (bool, string) {
	files, _ := filepath.Glob(filepath.Join(oracleDir, "*", "*_"+prop+"_test.go"))
	more, _ := filepath.Glob(filepath.Join(oracleDir, "*", "*", "*_"+prop+"_test.go"))
	files = append(files, more...)
	if len(files) == 0 {
		return true, "NO-ORACLE for " + prop
	}
	tmp, err := os.MkdirTemp("", "govc-oracle")
	if err != nil {
		return true, "NO-ORACLE (tempdir): " + err.Error()
	}
	defer os.RemoveAll(tmp)
	repl := map[string]string{}
	pkgs := map[string]bool{}
	for _, f := range files {
		rel, _ := filepath.Rel(oracleDir, filepath.Dir(f))
		// shared helpers in the same oracle dir
		helpers, _ := filepath.Glob(filepath.Join(filepath.Dir(f), "zzverif_helper*_test.go"))
		for _, h := range append(helpers, f) {
			repl[filepath.Join(repo, rel, filepath.Base(h))] = h
		}
		pkgs["./"+rel] = true
	}
	ov, _ := json.Marshal(map[string]interface{}{"Replace": repl})
	ovf := filepath.Join(tmp, "ov.json")
	os.WriteFile(ovf, ov, 0o644)
	to := "120s"
	if tier == "thorough" {
		to = "600s"
	}
	args := []string{"test", "-v", "-overlay", ovf, "-vet=off", "-count=1", "-timeout", to, "-run", "TestVerifOracle_" + prop}
	for _, f := range files {
		if strings.Contains(filepath.Base(f), "_race_") {
			args = append(args[:1], append([]string{"-race"}, args[1:]...)...)
			break
		}
	}
	for p := range pkgs {
		args = append(args, p)
	}
	cmd := exec.Command("go", args...)
	cmd.Dir = repo
	cmd.Env = append(os.Environ(), "GOFLAGS=-mod=mod", "GOPROXY=off", "GOSUMDB=off", "GOTOOLCHAIN=local",
		fmt.Sprintf("VERIF_SEED=%d", seed), "VERIF_TIER="+tier)
	out, err := cmd.CombinedOutput()
	return err == nil, string(out)
}

// unexpectedAbstractions lists over-approximated constructs of a function that its contract does not declare (`abstracts`).
func unexpectedAbstractions(e *Engine, res *FuncResult) []string {
	if res == nil {
		return nil
	}
	fc := e.Contracts[res.Key]
	var out []string
	for _, u := range res.Unsupported {
		kind := u
		if k := strings.Index(u, ": "); k >= 0 {
			kind = u[k+2:]
		}
		ok := false
		if fc != nil {
			for _, a := range fc.Abstracts {
				if strings.HasPrefix(kind, a) {
					ok = true
				}
			}
		}
		if !ok {
			out = append(out, kind)
		}
	}
	return out
}
