package main

// Static part of the C16 discipline: every function reachable from a `go` statement of the repository that touches a
// field declared `guarded` / `atomic` must be under a contract carrying property C16 (there the access itself is an
// SMT obligation); any other function of the closure must not touch these fields at all.

import (
	"fmt"
	"go/types"
	"sort"
	"strings"

	"golang.org/x/tools/go/ssa"
)

func (e *Engine) goroutineClosure() (roots []*ssa.Function, closure map[*ssa.Function]bool) {
	closure = map[*ssa.Function]bool{}
	var work []*ssa.Function
	names := make([]string, 0, len(e.Funcs))
	for k := range e.Funcs {
		names = append(names, k)
	}
	sort.Strings(names)
	guardPkgs := map[string]bool{}
	for _, gd := range e.Guards {
		guardPkgs[gd.Pkg] = true
	}
	for _, k := range names {
		f := e.Funcs[k]
		// only goroutines started inside a package that declares shared (guarded / atomic) state: the goroutine of
		// executor.go runs one whole experiment on its own while the main goroutine merely waits for it
		if f.Pkg == nil || !guardPkgs[f.Pkg.Pkg.Path()] {
			continue
		}
		for _, b := range f.Blocks {
			for _, in := range b.Instrs {
				if g, ok := in.(*ssa.Go); ok {
					if callee := g.Common().StaticCallee(); callee != nil {
						roots = append(roots, callee)
						work = append(work, callee)
					} else if mc, ok := g.Common().Value.(*ssa.MakeClosure); ok {
						if fn, ok := mc.Fn.(*ssa.Function); ok {
							roots = append(roots, fn)
							work = append(work, fn)
						}
					}
				}
			}
		}
	}
	inRepo := func(f *ssa.Function) bool {
		if f == nil || f.Pkg == nil {
			return false
		}
		for _, p := range e.RepoPkgs {
			if f.Pkg.Pkg.Path() == p {
				return true
			}
		}
		return false
	}
	for len(work) > 0 {
		f := work[len(work)-1]
		work = work[:len(work)-1]
		if f == nil || closure[f] || !inRepo(f) {
			continue
		}
		closure[f] = true
		for _, an := range f.AnonFuncs {
			work = append(work, an)
		}
		for _, b := range f.Blocks {
			for _, in := range b.Instrs {
				var c *ssa.CallCommon
				switch in := in.(type) {
				case *ssa.Call:
					c = in.Common()
				case *ssa.Defer:
					c = in.Common()
				case *ssa.Go:
					c = in.Common()
				}
				if c == nil {
					continue
				}
				if sc := c.StaticCallee(); sc != nil {
					work = append(work, sc)
					continue
				}
				if c.IsInvoke() {
					// every repository method of that name on a type implementing the interface
					iface, _ := c.Value.Type().Underlying().(*types.Interface)
					for _, cand := range e.Funcs {
						if cand.Name() != c.Method.Name() || cand.Signature.Recv() == nil {
							continue
						}
						if iface == nil || types.Implements(cand.Signature.Recv().Type(), iface) {
							work = append(work, cand)
						}
					}
				}
			}
		}
	}
	return
}

// raceClosureObligations returns syntactic obligations (already decided) for property C16.
func (e *Engine) raceClosureObligations() *FuncResult {
	res := &FuncResult{Key: "C16.closure", Short: "C16.goroutine-closure"}
	roots, closure := e.goroutineClosure()
	vc := &VC{e: e, short: res.Short, sorts: map[string]string{}, oblNames: map[string]int{},
		usedTrusted: map[string]bool{}, inlined: map[string]bool{}, callCount: map[string]int{}}
	res.VC = nil
	add := func(label, src string, ok bool, line int) {
		o := &Obl{Name: res.Short + "#closure." + label, Kind: "closure", Label: label, Func: res.Short, Src: src, Props: []string{"C16"}, Solver: "static (SSA scan)", Line: line}
		if ok {
			o.Status = "unsat"
		} else {
			o.Status = "sat"
			o.Model = src
		}
		res.Obls = append(res.Obls, o)
	}
	if len(roots) == 0 {
		add("roots", "no go statement found in the repository packages: the closure is empty", false, 0)
		return res
	}
	var fs []*ssa.Function
	for f := range closure {
		fs = append(fs, f)
	}
	sort.Slice(fs, func(i, j int) bool { return fs[i].String() < fs[j].String() })
	for _, f := range fs {
		touched := map[string]bool{}
		for _, b := range f.Blocks {
			for _, in := range b.Instrs {
				fa, ok := in.(*ssa.FieldAddr)
				if !ok {
					continue
				}
				pt := fa.X.Type().Underlying().(*types.Pointer)
				fld := pt.Elem().Underlying().(*types.Struct).Field(fa.Field)
				key := "H." + typeKey(pt.Elem()) + "." + fld.Name()
				if e.Guards[key] != nil {
					touched[key] = true
				}
			}
		}
		if len(touched) == 0 {
			continue
		}
		var keys []string
		for k := range touched {
			keys = append(keys, strings.TrimPrefix(k, "H."))
		}
		sort.Strings(keys)
		fc := e.Contracts[f.String()]
		under := fc != nil && !fc.Trusted && !fc.Exclusive
		if under {
			under = false
			for _, p := range fc.Props {
				if p == "C16" {
					under = true
				}
			}
		}
		add(shortFn(e.shortName(f.String())), fmt.Sprintf("%s runs inside a goroutine and accesses %s: it must be under a (non-exclusive) contract carrying C16 so that each access is checked against the lock discipline", e.shortName(f.String()), strings.Join(keys, ", ")), under, e.Fset.Position(f.Pos()).Line)
	}
	add("size", fmt.Sprintf("%d functions reachable from %d go statement(s) scanned", len(closure), len(roots)), true, 0)
	_ = vc
	return res
}
