package main

import (
	"fmt"
	"go/token"
	"go/types"

	"golang.org/x/tools/go/ssa"
)

func (fr *Frame) fneg(x *Term) *Term {
	if fr.vc.e.FloatSort == "Real" {
		return App("-", x)
	}
	return App("fp.neg", x)
}

func isRealNumeral(t *Term) bool {
	if t.Op == "" {
		return len(t.Atom) > 0 && t.Atom[0] >= '0' && t.Atom[0] <= '9'
	}
	if (t.Op == "-" && len(t.Args) == 1) || t.Op == "/" {
		for _, a := range t.Args {
			if !isRealNumeral(a) {
				return false
			}
		}
		return true
	}
	return false
}

func (e *Engine) fop(op string, x, y *Term) *Term {
	if e.FloatSort == "Real" {
		if e.ufArith && (op == "*" || op == "/") && !isRealNumeral(x) && !isRealNumeral(y) {
			// products / quotients of two symbolic values stay uninterpreted: only syntactic equality matters
			if op == "*" {
				return App("fmulU", x, y)
			}
			return App("fdivU", x, y)
		}
		switch op {
		case "+", "-", "*", "/":
			return App(op, x, y)
		}
	}
	m := map[string]string{"+": "fp.add", "-": "fp.sub", "*": "fp.mul", "/": "fp.div"}
	return App(m[op], A("RNE"), x, y)
}

func (e *Engine) fcmp(op string, x, y *Term) *Term {
	if e.FloatSort == "Real" {
		switch op {
		case "==":
			return Eq(x, y)
		case "!=":
			return Not(Eq(x, y))
		}
		return App(op, x, y)
	}
	switch op {
	case "==":
		return App("fp.eq", x, y)
	case "!=":
		return Not(App("fp.eq", x, y))
	case "<":
		return App("fp.lt", x, y)
	case "<=":
		return App("fp.leq", x, y)
	case ">":
		return App("fp.gt", x, y)
	case ">=":
		return App("fp.geq", x, y)
	}
	panic("fcmp " + op)
}

// truncated integer division / remainder (Go semantics) on mathematical ints
func truncDiv(a, b *Term) *Term {
	q := App("div", a, b)
	// SMT div is floor for b>0 and ceil for b<0 such that a = b*q + r, 0<=r<|b|.
	// Go: truncation toward zero.  q_go = q if r == 0 or a >= 0 ; else q+1 (b>0) / q-1 (b<0)
	r := App("mod", a, b)
	adj := Ite(App(">", b, Zero), IAdd(q, One), ISub(q, One))
	return Ite(Or(App(">=", a, Zero), Eq(r, Zero)), q, adj)
}

func truncRem(a, b *Term) *Term {
	return ISub(a, App("*", b, truncDiv(a, b)))
}

func (fr *Frame) binop(op token.Token, x, y Val, rt types.Type, reach *Term, pos token.Pos) Val {
	vc := fr.vc
	e := vc.e
	x, y = fr.reify(x), fr.reify(y)
	xt := x.Typ
	if xt == nil {
		xt = y.Typ
	}
	switch op {
	case token.EQL, token.NEQ:
		var eq *Term
		switch {
		case len(x.Leaves) == 4 && len(y.Leaves) == 4: // slice vs nil
			eq = Eq(x.sBase(), y.sBase())
		case len(x.Leaves) == 2 && len(y.Leaves) == 2: // interfaces
			eq = And(Eq(x.Leaves[0], y.Leaves[0]), Eq(x.Leaves[1], y.Leaves[1]))
			if y.Leaves[0].String() == "0" && y.Leaves[1].String() == "0" {
				eq = Eq(x.Leaves[0], Zero)
			} else if x.Leaves[0].String() == "0" && x.Leaves[1].String() == "0" {
				eq = Eq(y.Leaves[0], Zero)
			}
		case len(x.Leaves) == 1 && len(y.Leaves) == 1:
			if isFloat(xt) {
				eq = e.fcmp("==", x.T(), y.T())
			} else {
				eq = Eq(x.T(), y.T())
			}
		case len(x.Leaves) == len(y.Leaves):
			var cs []*Term
			for i := range x.Leaves {
				cs = append(cs, Eq(x.Leaves[i], y.Leaves[i]))
			}
			eq = And(cs...)
		default:
			// composite vs nil constant
			if len(y.Leaves) == 1 && y.Leaves[0].String() == "0" {
				eq = Eq(x.Leaves[0], Zero)
			} else if len(x.Leaves) == 1 && x.Leaves[0].String() == "0" {
				eq = Eq(y.Leaves[0], Zero)
			} else {
				panic(fmt.Sprintf("== on %v / %v", x.Typ, y.Typ))
			}
		}
		if op == token.NEQ {
			eq = Not(eq)
		}
		return scalar(rt, eq)
	case token.LSS, token.LEQ, token.GTR, token.GEQ:
		if isFloat(xt) {
			return scalar(rt, e.fcmp(op.String(), x.T(), y.T()))
		}
		if isString(xt) {
			vc.unsupported("%s: string ordering", vc.short)
			return scalar(rt, vc.fresh("strcmp", "Bool"))
		}
		return scalar(rt, App(op.String(), x.T(), y.T()))
	case token.ADD, token.SUB, token.MUL, token.QUO, token.REM:
		if isFloat(rt) {
			if op == token.QUO {
				fr.fdefCheck(y.T(), reach, pos)
			}
			return scalar(rt, e.fop(op.String(), x.T(), y.T()))
		}
		if isString(rt) {
			return scalar(rt, App("strcat", x.T(), y.T()))
		}
		switch op {
		case token.ADD:
			return scalar(rt, IAdd(x.T(), y.T()))
		case token.SUB:
			return scalar(rt, ISub(x.T(), y.T()))
		case token.MUL:
			return scalar(rt, App("*", x.T(), y.T()))
		case token.QUO:
			vc.oblige("safe.div", fr.lbl(""), reach, Not(Eq(y.T(), Zero)), fr.pos(pos), "integer division by zero", nil, "")
			return scalar(rt, truncDiv(x.T(), y.T()))
		case token.REM:
			vc.oblige("safe.div", fr.lbl(""), reach, Not(Eq(y.T(), Zero)), fr.pos(pos), "integer division by zero", nil, "")
			return scalar(rt, truncRem(x.T(), y.T()))
		}
	case token.AND, token.OR, token.XOR, token.SHL, token.SHR, token.AND_NOT:
		if isBool(rt) {
			switch op {
			case token.AND:
				return scalar(rt, And(x.T(), y.T()))
			case token.OR:
				return scalar(rt, Or(x.T(), y.T()))
			}
		}
		vc.unsupported("%s: bit operation %s", vc.short, op)
		return scalar(rt, vc.fresh("bitop", "Int"))
	}
	panic("binop " + op.String())
}

// float division: definedness obligation (divisor != 0), only in functions that ask for it
func (fr *Frame) fdefCheck(d *Term, reach *Term, pos token.Pos) {
	if fr.fc == nil || fr.depth > 0 && fr.vc.fc == nil {
		return
	}
	fc := fr.vc.fc
	if fc == nil || !fc.FDef {
		return
	}
	var nz *Term
	if fr.vc.e.FloatSort == "Real" {
		nz = Not(Eq(d, A("0.0")))
	} else {
		nz = Not(App("fp.isZero", d))
	}
	fr.vc.oblige("fdef", fr.lbl(""), reach, nz, fr.pos(pos), "float division: divisor must be non-zero (no NaN/Inf)", nil, "")
}

func (fr *Frame) convert(x Val, from, to types.Type) Val {
	vc := fr.vc
	e := vc.e
	x = fr.reify(x)
	switch {
	case isInteger(from) && isInteger(to):
		return scalar(to, x.T())
	case isInteger(from) && isFloat(to):
		if e.FloatSort == "Real" {
			return scalar(to, App("to_real", x.T()))
		}
		return scalar(to, App("(_ to_fp 11 53)", A("RNE"), App("to_real", x.T())))
	case isFloat(from) && isFloat(to):
		return scalar(to, x.T())
	case isFloat(from) && isInteger(to):
		if e.FloatSort == "Real" {
			// truncation toward zero
			t := x.T()
			return scalar(to, Ite(App(">=", t, A("0.0")), App("to_int", t), INeg(App("to_int", App("-", t)))))
		}
		vc.unsupported("%s: float->int conversion in fp mode", vc.short)
		return scalar(to, vc.fresh("f2int", "Int"))
	case isString(to) || isString(from):
		vc.unsupported("%s: string conversion", vc.short)
		return vc.freshVal("strconv", to)
	}
	if len(e.layout(from)) == len(e.layout(to)) {
		return Val{Typ: to, Leaves: x.Leaves}
	}
	vc.unsupported("%s: conversion %v -> %v", vc.short, from, to)
	return vc.freshVal("conv", to)
}

func (fr *Frame) sliceOp(ins *ssa.Slice, reach *Term, st *State) {
	vc := fr.vc
	x := fr.val(ins.X, st)
	var lo, hi, mx *Term
	if ins.Low != nil {
		lo = fr.val(ins.Low, st).T()
	} else {
		lo = Zero
	}
	if ins.High != nil {
		hi = fr.val(ins.High, st).T()
	}
	if ins.Max != nil {
		mx = fr.val(ins.Max, st).T()
	}
	switch xt := ins.X.Type().Underlying().(type) {
	case *types.Slice:
		if hi == nil {
			hi = x.sLen()
		}
		capv := x.sCap()
		newCap := ISub(capv, lo)
		bound := capv
		if mx != nil {
			newCap = ISub(mx, lo)
			bound = mx
			vc.oblige("safe.slice", fr.lbl(""), reach, App("<=", mx, capv), fr.pos(ins.Pos()), "slice max out of range", nil, "")
		}
		vc.oblige("safe.slice", fr.lbl(""), reach, And(App("<=", Zero, lo), App("<=", lo, hi), App("<=", hi, bound)), fr.pos(ins.Pos()), "slice bounds out of range", nil, "")
		fr.setReg(ins, Val{Typ: ins.Type(), Leaves: []*Term{x.sBase(), IAdd(x.sOff(), lo), ISub(hi, lo), newCap}})
	case *types.Pointer:
		at := xt.Elem().Underlying().(*types.Array)
		xp := fr.reify(x)
		n := NumI(at.Len())
		if hi == nil {
			hi = n
		}
		vc.oblige("safe.slice", fr.lbl(""), reach, And(App("<=", Zero, lo), App("<=", lo, hi), App("<=", hi, n)), fr.pos(ins.Pos()), "slice bounds out of range", nil, "")
		fr.setReg(ins, Val{Typ: ins.Type(), Leaves: []*Term{xp.T(), lo, ISub(hi, lo), ISub(n, lo)}})
	default:
		vc.unsupported("%s: slicing of %s", vc.short, ins.X.Type())
		fr.setReg(ins, vc.freshVal(ins.Name(), ins.Type()))
	}
}

func (fr *Frame) typeAssert(ins *ssa.TypeAssert, reach *Term, st *State) {
	vc := fr.vc
	e := vc.e
	x := fr.val(ins.X, st)
	tag, pay := x.Leaves[0], x.Leaves[1]
	var ok *Term
	var res Val
	if _, isIface := ins.AssertedType.Underlying().(*types.Interface); isIface {
		// to interface: succeeds iff non-nil and the dynamic type implements it.
		impl := vc.fresh("implements", "Bool")
		var alts []*Term
		for id, t := range e.typeByID {
			if types.Implements(t, ins.AssertedType.Underlying().(*types.Interface)) {
				alts = append(alts, Eq(tag, NumI(int64(id))))
			}
		}
		vc.assume(reach, Imp(Or(alts...), impl))
		ok = And(Not(Eq(tag, Zero)), impl)
		res = Val{Typ: ins.AssertedType, Leaves: []*Term{tag, pay}}
	} else {
		id := NumI(int64(e.typeID(ins.AssertedType)))
		ok = Eq(tag, id)
		ls := e.layout(ins.AssertedType)
		if len(ls) == 1 && ls[0].Sort == "Int" {
			res = scalar(ins.AssertedType, pay)
		} else {
			res = vc.freshVal("unboxed", ins.AssertedType)
			if len(ls) == 1 && ls[0].Kind == "float" {
				vc.assume(reach, Imp(ok, Eq(App("f2i", res.T()), pay)))
			}
		}
	}
	if ins.CommaOk {
		// on failure the value is the zero value
		z := e.zeroVal(ins.AssertedType)
		out := Val{Typ: ins.Type()}
		for i := range res.Leaves {
			out.Leaves = append(out.Leaves, Ite(ok, res.Leaves[i], z.Leaves[i]))
		}
		out.Leaves = append(out.Leaves, ok)
		fr.setReg(ins, out)
	} else {
		vc.oblige("safe.assert", fr.lbl(""), reach, ok, fr.pos(ins.Pos()), "type assertion must succeed", nil, "")
		fr.setReg(ins, res)
	}
}

func keySort(mt *types.Map) string {
	if isFloat(mt.Key()) {
		return "Real"
	}
	if isBool(mt.Key()) {
		return "Bool"
	}
	return "Int"
}

func mapDomVar(mt *types.Map) (string, string) {
	return "MD." + typeKey(mt), ArrSort("Int", ArrSort(keySort(mt), "Bool"))
}

func mapValVar(mt *types.Map, l Leaf) (string, string) {
	return "MV." + typeKey(mt) + l.Path, ArrSort("Int", ArrSort(keySort(mt), l.Sort))
}

func (fr *Frame) mapKey(k Val) *Term {
	k = fr.reify(k)
	if len(k.Leaves) == 2 {
		// interface key: use payload
		return k.Leaves[1]
	}
	return k.T()
}

func (fr *Frame) lookup(ins *ssa.Lookup, reach *Term, st *State) {
	vc := fr.vc
	e := vc.e
	mt, ok := ins.X.Type().Underlying().(*types.Map)
	if !ok {
		vc.unsupported("%s: string indexing", vc.short)
		fr.setReg(ins, vc.freshVal(ins.Name(), ins.Type()))
		return
	}
	m := fr.val(ins.X, st).T()
	k := fr.mapKey(fr.val(ins.Index, st))
	dn, ds := mapDomVar(mt)
	vc.noteSort(dn, ds)
	has := And(Not(Eq(m, Zero)), Sel2(vc.sv(st, dn, ds), m, k))
	z := e.zeroVal(mt.Elem())
	out := Val{Typ: ins.Type()}
	var raw Val
	raw.Typ = mt.Elem()
	for i, l := range e.layout(mt.Elem()) {
		vn, vs := mapValVar(mt, l)
		vc.noteSort(vn, vs)
		v := Sel2(vc.sv(st, vn, vs), m, k)
		raw.Leaves = append(raw.Leaves, v)
		out.Leaves = append(out.Leaves, Ite(has, v, z.Leaves[i]))
	}
	if ins.CommaOk {
		out.Leaves = append(out.Leaves, has)
	}
	fr.setReg(ins, out)
}
