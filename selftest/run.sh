#!/bin/bash
# Must-fail / must-pass corpus: every patch in mutants/ must make the named check report a VIOLATION,
# every patch in benign/ must leave it green. Patches are applied to a scratch copy outside /repo and /verif.
# usage: selftest/run.sh [pattern]
cd "$(dirname "$0")/.."
pat=${1:-}
scratch=/root/scratch/selftest.$$
fail=0
run_one() {
  patch=$1; expect=$2
  name=$(basename "$patch" .patch)
  prop=${name%%_*}
  rm -rf "$scratch"; mkdir -p "$scratch"
  rsync -a --exclude out --exclude .git /repo/ "$scratch"/
  if ! (cd "$scratch" && patch -p1 -s < "$OLDPWD/$patch"); then echo "SELFTEST $name: patch does not apply"; fail=1; return; fi
  out=$(bin/govc check -prop "$prop" -repo "$scratch" -evidence "$scratch/evidence.json" -out "$scratch/out" 2>&1)
  rc=$?
  if [ "$expect" = violation ]; then
    if [ $rc -eq 1 ] && echo "$out" | grep -q "^VIOLATION property=$prop"; then echo "SELFTEST $name: caught ($(echo "$out" | grep -c '^VIOLATION') obligations)"; else echo "SELFTEST $name: MISSED (rc=$rc)"; echo "$out" | tail -5; fail=1; fi
  else
    if [ $rc -eq 0 ]; then echo "SELFTEST $name: stays green"; else echo "SELFTEST $name: FALSE ALARM (rc=$rc)"; echo "$out" | tail -5; fail=1; fi
  fi
  rm -rf "$scratch"
}
for p in selftest/mutants/*${pat}*.patch; do [ -e "$p" ] && run_one "$p" violation; done
for p in selftest/benign/*${pat}*.patch; do [ -e "$p" ] && run_one "$p" green; done
exit $fail
