#!/bin/bash
# Must-fail / must-pass corpus: every patch in mutants/ must make the named check report a VIOLATION,
# every patch in benign/ must leave it green. Patches are applied to scratch copies outside /repo and /verif.
# usage: selftest/run.sh [pattern] [jobs]
cd "$(dirname "$0")/.."
pat=${1:-}; jobs=${2:-3}
root=/root/scratch/selftest.$$; mkdir -p "$root/res"
run_one() {
  patch=$1; expect=$2
  name=$(basename "$patch" .patch)
  prop=${name%%_*}
  scratch=$root/$name
  rm -rf "$scratch"; mkdir -p "$scratch"
  rsync -a --exclude out --exclude .git /repo/ "$scratch"/
  if ! (cd "$scratch" && patch -p1 -s < "$OLDPWD/$patch"); then echo "SELFTEST $name: patch does not apply"; echo 1 > "$root/res/$name"; rm -rf "$scratch"; return; fi
  out=$(bin/govc check -prop "$prop" -repo "$scratch" -evidence "$scratch/evidence.json" -out "$scratch/out" 2>&1)
  rc=$?; bad=0
  if [ "$expect" = violation ]; then
    if [ $rc -eq 1 ] && echo "$out" | grep -q "^VIOLATION property=$prop"; then echo "SELFTEST $name: caught ($(echo "$out" | grep -c '^VIOLATION') obligations)"; else echo "SELFTEST $name: MISSED (rc=$rc)"; echo "$out" | tail -5; bad=1; fi
  else
    if [ $rc -eq 0 ]; then echo "SELFTEST $name: stays green"; else echo "SELFTEST $name: FALSE ALARM (rc=$rc)"; echo "$out" | tail -5; bad=1; fi
  fi
  echo $bad > "$root/res/$name"
  rm -rf "$scratch"
}
for p in selftest/mutants/*${pat}*.patch; do [ -e "$p" ] || continue; run_one "$p" violation & while [ $(jobs -r | wc -l) -ge $jobs ]; do sleep 0.3; done; done
for p in selftest/benign/*${pat}*.patch; do [ -e "$p" ] || continue; run_one "$p" green & while [ $(jobs -r | wc -l) -ge $jobs ]; do sleep 0.3; done; done
wait
fail=0; grep -qs 1 "$root"/res/* && fail=1
rm -rf "$root"
exit $fail
