#!/usr/bin/env python3
import json,sys
pid=sys.argv[1]
for l in open('/verif/properties.jsonl'):
    p=json.loads(l)
    if p['id']==pid: break
wt=f"/tmp/seed/{pid}"; out=f"/tmp/seed/{pid}-out"
print(f"""You are testing how well a Go library's guarantees are protected. Work ONLY inside the git worktree {wt} (a checkout of the Go library yaricom/goNEAT, module github.com/yaricom/goNEAT/v4) and the output directory {out}. Do not read or touch /repo, /verif or any other directory; do not commit anything.

Every shell command that runs go must start with:
  export GOFLAGS=-mod=mod GOPROXY=off GOSUMDB=off GOTOOLCHAIN=local
(the sandbox has no network; all dependencies are already in the module cache).

PROPERTY ({pid}) — {p.get('title','')}
Statement: {p['statement']}
Holds: {p['quantifier']['text']}
Files it mostly lives in: {', '.join(p['anchors']['files'])}

TASK: make ONE realistic change to the library's non-test source code (a plausible refactoring slip, off-by-one, dropped guard, wrong operand, reordered statements, stale cache, aliasing of a slice, etc.) such that
  (a) the library still compiles (go build ./... and go vet-free `go test -vet=off -run '^$' ./...`),
  (b) ALL existing tests still pass: at minimum `go test -vet=off -count=1 ./neat/... ./experiment/...`, and finally the full `go test -vet=off -count=1 -timeout 25m ./...` (the examples packages are slow: 5-9 minutes; run the full suite once at the end),
  (c) the property above is violated by the changed library, but only under something specific: an unusual input shape, a multi-step sequence of operations, a particular configuration, a particular interleaving or fault point, or two cooperating sites that each look fine alone. Do NOT make a change that ordinary use would expose at once.
Do not edit, delete or add to existing *_test.go files. Do not touch files named zz_contracts_verif.go.

Then write a DEMONSTRATION: a new Go test file (in-package test is fine, name it zz_seed_{pid.lower()}_test.go in the relevant package directory) that FAILS with your change and PASSES on the unchanged code. Verify both directions yourself (use `git diff > p.diff; git checkout -- <files>; ...; git apply p.diff`; NEVER use `git stash`: the stash is shared between all worktrees of the repository and other agents work in sibling worktrees).

DELIVERABLES in {out}/ :
  patch.diff   — `git diff` of the library change only (NOT including the demonstration test), applicable with `git apply` at the worktree root
  the demonstration test file(s) (copy them there, and say in notes.md which package directory each belongs in)
  notes.md     — which clause of the property the change breaks; exactly what is needed for it to manifest; the commands you ran and their outcome (existing tests pass with the change; demo fails with the change and passes without).
Leave the worktree with your change applied and the demo test present. Keep the change small (a few lines). Report back a 10-line summary.""")
