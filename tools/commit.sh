#!/bin/bash
# usage: tools/commit.sh "message"   - regenerate MANIFEST, validate, run every claimed check on /repo's current tree,
# and commit /verif only if nothing alarms (evidence is then the evidence of a green run on the unchanged tree).
cd /verif || exit 2
[ -n "$(git -C /repo status --short | grep -v '^??')" ] && { echo "REFUSED: /repo has uncommitted changes (commit the hook / fix first)"; exit 1; }
python3 tools/mkmanifest.py >/dev/null || exit 1
python3-vt tools/validate.py > out/validate.log 2>&1 || { echo "REFUSED: MANIFEST.json does not validate"; tail -3 out/validate.log; exit 1; }; tail -1 out/validate.log
tools/runall.sh > out/runall.log 2>&1 || { echo "REFUSED: runall.sh is not green"; grep -v " 0 violations" out/runall.log | head; exit 1; }
git add -A && git commit -q -m "$1" && git log --oneline | head -1
