#!/usr/bin/env python3
# usage: mkmutant.py <kind: mutants|benign> <name> <repo-relative-file> <old> <new> [<file2> <old2> <new2> ...]
# Builds selftest/<kind>/<name>.patch by replacing the first occurrence of <old> with <new> in the current /repo file.
import sys,subprocess,os,tempfile
kind,name=sys.argv[1],sys.argv[2]
rest=sys.argv[3:]
out=[]
for i in range(0,len(rest),3):
    f,old,new=rest[i:i+3]
    src=open('/repo/'+f).read()
    assert old in src,(f,old)
    dst=src.replace(old,new,1)
    with tempfile.NamedTemporaryFile('w',delete=False) as t: t.write(dst)
    d=subprocess.run(['diff','-u','--label','a/'+f,'--label','b/'+f,'/repo/'+f,t.name],capture_output=True,text=True).stdout
    os.unlink(t.name)
    out.append(d)
open(f'/verif/selftest/{kind}/{name}.patch','w').write(''.join(out))
print('wrote',name)
