#!/bin/bash
# usage: mkseedwt.sh <id>  - create a scratch worktree of /repo HEAD for a seeding sub-agent (contract files removed)
set -e
id=$1
d=/tmp/seed/$id
git -C /repo worktree remove --force "$d" 2>/dev/null || true
rm -rf "$d" "/tmp/seed/$id-out"
git -C /repo worktree add --detach "$d" HEAD >/dev/null 2>&1
find "$d" -name 'zz_contracts_verif.go' -delete
# hide the deletion from git diff in the worktree
(cd "$d" && git ls-files -d | xargs -r git update-index --assume-unchanged)
mkdir -p "/tmp/seed/$id-out"
echo "$d"
