#!/bin/bash
# usage: showcore.sh <file.core.smt2> [timeout]  - print the quantified assumptions z3 used (unsat core), abbreviated
f=$1; t=${2:-120}
out=$(z3-new -T:$t "$f")
echo "$out" | head -1
core=$(echo "$out" | sed -n 2p | tr -d '()')
for n in $core; do grep -- ":named $n))" "$f" | cut -c1-${3:-240}; done
