#!/bin/bash
# usage: runseed.sh <seed-dir-name> <property> [tier]   - apply a seeded change to /repo, run the check, undo it
d=/verif/seeded/$1; prop=$2; tier=${3:-quick}
cd /repo && git apply "$d/patch.diff" || { echo "patch does not apply"; exit 3; }
mkdir -p /verif/out/seedrun; cd /verif && VERIF_EVIDENCE=/verif/out/seedrun/$prop.json ./check "$prop" "$tier" 2>&1 | grep -v "^loaded" | tail -${4:-6}
rc=${PIPESTATUS[0]}
git -C /repo apply -R "$d/patch.diff" || { echo "WARNING: could not revert the seeded patch cleanly"; }
exit $rc
