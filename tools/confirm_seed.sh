#!/bin/bash
# usage: confirm_seed.sh <id> [tag]  - re-confirm a seeded change from /tmp/seed/<id>-out in a fresh scratch worktree
# and store it as /verif/seeded/<id>[-tag]/ (patch.diff, demo test, notes.md, confirm.log)
id=$1; tag=${2:+-$2}
src=/tmp/seed/$id-out; dst=/verif/seeded/$id$tag; wt=/tmp/seedchk/$id$tag
export GOFLAGS=-mod=mod GOPROXY=off GOSUMDB=off GOTOOLCHAIN=local
mkdir -p "$dst" /tmp/seedchk
cp "$src/patch.diff" "$dst/patch.diff"; cp "$src"/zz_seed_*_test.go "$dst"/ 2>/dev/null; cp "$src/notes.md" "$dst/notes.md" 2>/dev/null
git -C /repo worktree remove --force "$wt" 2>/dev/null; rm -rf "$wt"
git -C /repo worktree add --detach "$wt" HEAD >/dev/null 2>&1
log=$dst/confirm.log; : > "$log"
demo=$(ls "$dst"/zz_seed_*_test.go | head -1)
pkgdir=$(grep -l "" /dev/null; grep -o 'neat/[a-z/]*\|experiment' "$dst/notes.md" | head -50 | sort | uniq -c | sort -rn | awk '{print $2}' | head -1)
# find the package from the test's package clause
pk=$(head -20 "$demo" | grep '^package ' | awk '{print $2}')
case $pk in genetics) pkgdir=neat/genetics;; network) pkgdir=neat/network;; math) pkgdir=neat/math;; neat) pkgdir=neat;; experiment) pkgdir=experiment;; goneat|main) pkgdir=.;; esac
cp "$demo" "$wt/$pkgdir/"
run=$(grep -o 'func Test[A-Za-z0-9_]*' "$demo" | sed 's/func //' | paste -sd'|')
cd "$wt"
echo "== demo on unchanged code (must pass): go test -run '$run' ./$pkgdir" >> "$log"
go test -vet=off -count=1 -timeout 10m -run "$run" ./$pkgdir >> "$log" 2>&1; a=$?
git apply "$dst/patch.diff" >> "$log" 2>&1 || echo "PATCH DOES NOT APPLY" >> "$log"
echo "== demo with the change (must fail)" >> "$log"
go test -vet=off -count=1 -timeout 10m -run "$run" ./$pkgdir 2>&1 | tail -40 >> "$log"; b=${PIPESTATUS[0]}
rm "$wt/$pkgdir/$(basename $demo)"
echo "== existing tests with the change (must pass): go build ./... && go test ./neat/... ./experiment/..." >> "$log"
go build ./... >> "$log" 2>&1 && go test -vet=off -count=1 -timeout 20m ./neat/... ./experiment/... >> "$log" 2>&1; c=$?
echo "RESULT unchanged_demo_rc=$a changed_demo_rc=$b existing_tests_rc=$c" >> "$log"
cd /; git -C /repo worktree remove --force "$wt"; rm -rf "$wt"
tail -1 "$log"
