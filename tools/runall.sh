#!/bin/bash
# usage: runall.sh [tier]  - run every check claimed in MANIFEST.json on /repo's current tree (in parallel), report alarms
cd /verif; tier=${1:-quick}
ids=$(python3 -c "import json;print(' '.join(c['property_id'] for c in json.load(open('MANIFEST.json'))['checks']))")
mkdir -p out/runall; rc=0
for i in $ids; do ( ./check $i $tier > out/runall/$i.log 2>&1; echo $? > out/runall/$i.rc ) & 
  while [ $(jobs -r | wc -l) -ge 4 ]; do sleep 0.5; done
done; wait
for i in $ids; do r=$(cat out/runall/$i.rc); l=$(tail -1 out/runall/$i.log); if [ "$r" != 0 ] || grep -q "UNDECIDED\|BROKEN" out/runall/$i.log; then rc=1; echo "ALARM $i rc=$r"; grep "VIOLATION\|BROKEN\|UNDECIDED" out/runall/$i.log | head -5; fi; echo "$i: $l"; done
exit $rc
