#!/opt/veriftools/pyvenv/bin/python
import json,jsonschema,glob,sys
m=json.load(open('/verif/MANIFEST.json'))
jsonschema.validate(m,json.load(open('/root/.vp/MANIFEST.schema.json')))
es=json.load(open('/root/.vp/EVIDENCE.schema.json'))
ids={json.loads(l)['id'] for l in open('/verif/properties.jsonl')}
claimed={c['property_id'] for c in m['checks']}
na={c['property_id'] for c in m.get('not_applicable',[])}
assert claimed|na==ids and not (claimed&na), (ids-claimed-na, claimed&na)
for c in m['checks']:
    f=c['evidence_file']
    try:
        jsonschema.validate(json.load(open(f)),es)
    except Exception as e:
        print('EVIDENCE PROBLEM',f,str(e)[:200])
print('manifest ok; claimed',sorted(claimed))
