#!/bin/bash
# usage: scratch.sh <dir>   - (re)create a scratch copy of /repo's working tree (without out/ and .git)
set -e
d=${1:-/root/scratch/m}
mkdir -p "$d"
rsync -a --delete --exclude out --exclude .git /repo/ "$d"/
echo "$d"
