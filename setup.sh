#!/bin/bash
# Build the verifier offline from the vendored sources.
set -e
cd "$(dirname "$0")/govc"
export GOFLAGS=-mod=vendor GOPROXY=off GOSUMDB=off GOTOOLCHAIN=local
mkdir -p ../bin ../out ../evidence
go build -o ../bin/govc .
